"""Check driver: runs the jobs of one property in parallel worker processes, replays every
counterexample on the real code without the engine, applies the known-findings list, writes
evidence and sets the exit code.

exit 0 = every job exhausted its path tree, no unknown path, no unlisted violation
exit 1 = a replayed violation that known_findings.json does not list (VIOLATION line printed)
exit 2 = inconclusive / harness error (never reported as success)
"""
from __future__ import annotations

import hashlib
import importlib
import json
import os
import subprocess
import sys
import tempfile
import time

ROOT = os.path.dirname(os.path.dirname(os.path.abspath(__file__)))
PY = os.path.join(ROOT, ".venv", "bin", "python")
NPROC = int(os.environ.get("VERIF_NPROC", str(min(16, os.cpu_count() or 4))))


def _spawn(job, tmpdir, idx):
    jp = os.path.join(tmpdir, f"job{idx}.json")
    op = os.path.join(tmpdir, f"out{idx}.json")
    json.dump(job, open(jp, "w"))
    env = dict(os.environ)
    env["PYTHONPATH"] = ROOT
    env.setdefault("PYTHONHASHSEED", "0")
    p = subprocess.Popen([PY, "-m", "rv.worker", jp, op], cwd=ROOT, env=env,
                         stdout=subprocess.DEVNULL, stderr=subprocess.PIPE)
    return p, op


def run_jobs(jobs, nproc=NPROC, log=None):
    """Run jobs (list of dicts) with at most nproc processes.  Returns list of result dicts."""
    results = [None] * len(jobs)
    pending = list(enumerate(jobs))
    # longest first
    pending.sort(key=lambda ij: -ij[1].get("weight", 1))
    running = {}
    with tempfile.TemporaryDirectory(prefix="rv-", dir=os.environ.get("VERIF_TMP", None)) as tmpdir:
        while pending or running:
            while pending and len(running) < nproc:
                i, job = pending.pop(0)
                p, op = _spawn(job, tmpdir, i)
                running[i] = (p, op, time.time(), job)
            time.sleep(0.05)
            for i in list(running):
                p, op, t0, job = running[i]
                hard = job.get("max_wall_s", 600) * 1.5 + 60
                if p.poll() is None:
                    if time.time() - t0 > hard:
                        p.kill()
                        p.wait()
                        results[i] = {"name": job["name"], "error": f"worker killed after {hard:.0f}s"}
                        del running[i]
                    continue
                err = p.stderr.read().decode(errors="replace")
                try:
                    results[i] = json.load(open(op))
                except Exception:
                    results[i] = {"name": job["name"], "error": "worker produced no result: " + err[-2000:]}
                results[i]["job_wall_s"] = round(time.time() - t0, 2)
                del running[i]
                if log:
                    r = results[i]
                    log(f"  job {r['name']}: paths={r.get('paths')} exhausted={r.get('exhausted')} "
                        f"unknown={r.get('unknown')} viol={r.get('n_violations')} "
                        f"wall={r['job_wall_s']}s" + (" ERROR" if "error" in r else ""))
    return results


def load_harness(spec):
    mod, fn = spec.split(":")
    return getattr(importlib.import_module(mod), fn)


def covered_functions(fn):
    """Run fn() under a profiler and return the redress functions it executed."""
    from rv import engine

    seen = set()
    src = os.path.realpath(engine.SRC)

    def prof(frame, event, arg):
        if event == "call":
            co = frame.f_code
            f = co.co_filename
            if f.startswith(src):
                seen.add(f[len(src) + 1:].replace("/", ".").removesuffix(".py") + ":" + co.co_qualname)

    sys.setprofile(prof)
    try:
        return fn(), seen
    finally:
        sys.setprofile(None)


def load_known(pid):
    path = os.path.join(ROOT, "known_findings.json")
    if not os.path.exists(path):
        return []
    data = json.load(open(path))
    return [e for e in data.get("findings", []) if e.get("property") == pid]


def main(argv=None):
    import argparse

    ap = argparse.ArgumentParser()
    ap.add_argument("pid")
    ap.add_argument("--tier", default=os.environ.get("VERIF_TIER", "quick"))
    ap.add_argument("--replay")
    ap.add_argument("--only", help="substring filter on job names (development)")
    ap.add_argument("--no-evidence", action="store_true")
    a = ap.parse_args(argv)
    pid = a.pid.upper()
    mod = importlib.import_module(f"rv.props.{pid.lower()}")
    from rv import engine

    if a.replay:
        rec = json.load(open(a.replay))
        h = load_harness(rec["harness"])
        verdict, _ = engine.replay(h, rec["params"], rec["values"])
        print(f"replay {a.replay}: verdict={verdict}")
        if verdict is not None:
            print(f"VIOLATION property={pid} replay={a.replay}")
            return 1
        return 0

    t0 = time.time()
    tier = a.tier if a.tier in ("quick", "thorough") else "quick"
    seed = int(os.environ.get("VERIF_SEED", "0") or 0)
    jobs = mod.jobs(tier)
    if a.only:
        jobs = [j for j in jobs if a.only in j["name"]]
    print(f"[{pid}] tier={tier} jobs={len(jobs)} nproc={NPROC} src={engine.SRC}")
    results = run_jobs(jobs, log=print)

    inconclusive = []
    violations = []  # (job, violation dict)
    known = load_known(pid)
    tot = dict(paths=0, ok=0, ignored=0, unknown=0, branch=0, solver_calls=0, solver_s=0.0)
    covered = {}
    samples = []
    validated = 0
    functions = set()
    for job, r in zip(jobs, results):
        if "error" in r:
            inconclusive.append(f"{job['name']}: {r['error'][-1500:]}")
            continue
        for k, rk in (("paths", "paths"), ("ok", "ok"), ("ignored", "ignored"), ("unknown", "unknown"),
                      ("branch", "branch_decisions"), ("solver_calls", "solver_calls"), ("solver_s", "solver_s")):
            tot[k] += r.get(rk, 0)
        if r.get("unknown"):
            inconclusive.append(f"{job['name']}: {r['unknown']} unknown path(s): {r.get('unknown_reasons')}")
        if not r.get("exhausted") and not r.get("n_violations"):
            inconclusive.append(f"{job['name']}: path tree not exhausted within {job.get('max_wall_s')}s "
                                f"({r.get('paths')} paths)")
        for lab in r.get("covered", []):
            covered[lab] = covered.get(lab, 0) + 1
        for v in r.get("violations", []):
            violations.append((job, v))
        # replay passing samples on the real code without the engine
        h = load_harness(job["harness"])
        for s in r.get("samples", [])[:2]:
            if "values" not in s:
                continue
            try:
                (verdict, csym), fns = covered_functions(lambda: engine.replay(h, job["params"], s["values"]))
                functions |= fns
                if verdict is None:
                    validated += 1
                    if len(samples) < 6:
                        samples.append({"job": job["name"], "values": s["values"],
                                        "replayed_on_real_code": engine._jsonable(csym.notes) or s.get("notes"),
                                        "verdict": "holds (replayed on real code)"})
                else:
                    inconclusive.append(f"{job['name']}: passing path does not pass on replay: {verdict}")
            except engine.ReplayMismatch as e:
                inconclusive.append(f"{job['name']}: replay mismatch on passing sample: {e}")

    # coverage goals (vacuity guard)
    goals = getattr(mod, "GOALS", [])
    missing = [g for g in goals if g not in covered] if not a.only else []
    if missing:
        inconclusive.append(f"coverage goals never reached: {missing}")

    # replay counterexamples; group by key
    os.makedirs(os.path.join(ROOT, "replays"), exist_ok=True)
    by_key = {}
    for job, v in violations:
        by_key.setdefault((v["key"]), []).append((job, v))
    new_violation_paths = []
    known_hits = []
    nonrepro = []
    for key, lst in sorted(by_key.items()):
        reproduced = None
        for job, v in lst[:5]:
            h = load_harness(job["harness"])
            try:
                verdict, _ = engine.replay(h, job["params"], v["values"])
            except engine.ReplayMismatch as e:
                verdict = None
                v["replay_error"] = str(e)
            if verdict is not None:
                reproduced = (job, v, verdict)
                break
        if reproduced is None:
            nonrepro.append(key)
            continue
        job, v, verdict = reproduced
        kn = [e for e in known if e.get("status") == "known" and e.get("key") == key]
        rec = dict(property=pid, key=key, message=str(verdict[1]), harness=job["harness"], params=job["params"],
                   values=v["values"], job=job["name"], tier=tier)
        hsh = hashlib.sha1(json.dumps([key, v["values"]], sort_keys=True).encode()).hexdigest()[:10]
        path = os.path.join(ROOT, "replays", f"{pid}-{hsh}.json")
        json.dump(rec, open(path, "w"), indent=1)
        if kn:
            known_hits.append((kn[0], path))
        else:
            new_violation_paths.append((key, verdict[1], path, len(lst)))
    if nonrepro:
        inconclusive.append(f"counterexamples that do not reproduce on replay (encoding/stub problem): {nonrepro}")

    for e, path in known_hits:
        print(f"KNOWN-FINDING: property={pid} {e.get('what')} (key={e.get('key')}, replay={path})")
    for key, msg, path, n in new_violation_paths:
        print(f"  violation key={key} paths={n}: {msg}")
        print(f"VIOLATION property={pid} replay={path}")

    wall = time.time() - t0
    meta = getattr(mod, "META", {})
    exhaustive = not inconclusive and not new_violation_paths
    ev = {
        "property_id": pid,
        "tier": tier,
        "seed": seed,
        "level": meta.get("level", "model_checking"),
        "coverage": {
            "states": max(tot["paths"], 1),
            "transitions": max(tot["branch"], 1),
            "traces_validated_against_impl": validated + len(new_violation_paths) + len(known_hits),
            "samples": samples or [{"note": "no passing sample recorded"}],
            "exhaustive": bool(exhaustive),
            "evaluations": max(tot["paths"], 1),
            "distinct_nontrivial": max(tot["ok"] + len(violations), 0),
            "rule": "cases are the feasible execution paths of the harness + real redress code, enumerated by the SMT "
                    "solver (one per distinct path condition, so all are distinct by construction); a case is non-trivial "
                    "when it satisfied every harness assumption and ran to the property assertions (paths cut by an "
                    "assumption or ending in solver-unknown are not counted)",
            "explanation": "states = feasible execution paths of the real redress code enumerated by the "
                           "SMT solver (each a distinct path condition over the symbolic world); transitions = "
                           "solver-decided branch decisions along them; traces_validated = realised paths "
                           "re-executed on the real code under plain CPython",
            "paths": tot["paths"], "paths_ok": tot["ok"], "paths_assumption_failed": tot["ignored"],
            "paths_unknown": tot["unknown"],
            "solver_queries": tot["solver_calls"], "solver_seconds": round(tot["solver_s"], 2),
            "jobs": [dict(name=j["name"], harness=j["harness"], params=j["params"],
                          paths=r.get("paths"), exhausted=r.get("exhausted"), unknown=r.get("unknown"),
                          violations=r.get("n_violations"), wall_s=r.get("wall_s"),
                          solver_queries=r.get("solver_calls"), solver_s=r.get("solver_s"),
                          error=r.get("error")) for j, r in zip(jobs, results)],
            "coverage_goals": covered,
            "functions_encoded": sorted(functions) or meta.get("functions", []),
            "bounds": meta.get("bounds", {}).get(tier, meta.get("bounds")),
            "outside_claim": meta.get("outside", []),
            "engine": "CrossHair 0.0.110 core (byte-code symbolic execution of /repo's current source) "
                      "driven by rv.engine; z3 " + _z3v(),
            "inconclusive": inconclusive,
            "known_findings_hit": [e.get("key") for e, _ in known_hits],
        },
        "assumptions": meta.get("assumptions", []),
        "wall_s": round(wall, 2),
        "violations": len(new_violation_paths),
    }
    if not a.no_evidence and not a.only:
        os.makedirs(os.path.join(ROOT, "evidence"), exist_ok=True)
        json.dump(ev, open(os.path.join(ROOT, "evidence", f"{pid}.json"), "w"), indent=1, default=str)
    print(f"[{pid}] paths={tot['paths']} ok={tot['ok']} unknown={tot['unknown']} solver_queries={tot['solver_calls']} "
          f"solver_s={tot['solver_s']:.1f} validated={validated} wall={wall:.1f}s")
    if new_violation_paths:
        return 1
    if inconclusive:
        for m in inconclusive:
            print(f"INCONCLUSIVE: {m}")
        return 2
    print(f"[{pid}] OK: every job exhausted, no violation within the stated bounds")
    return 0


def _z3v():
    try:
        import z3

        return z3.get_version_string()
    except Exception:
        return "?"


if __name__ == "__main__":
    sys.exit(main())
