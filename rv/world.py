"""Symbolic world + trace shared by the whole-run harnesses (C01-C16).

A *world* is everything the library cannot control: configuration, what each attempt does, how long
it takes, what every user callback answers.  All of it comes from ``sym`` (solver variables under
exploration, recorded values under replay).  The world runs one public entry point of the real
library and records a *trace* of everything observable.
"""
from __future__ import annotations

import asyncio

from . import env
from .engine import HarnessError, Violation  # noqa: F401

import redress  # noqa: E402  (path set up by rv.engine)
from redress import (  # noqa: E402
    AbortRetryError,
    AsyncPolicy,
    AsyncRetry,
    AsyncRetryPolicy,
    Budget,
    CircuitBreaker,
    CircuitOpenError,
    Classification,
    ErrorClass,
    Policy,
    Retry,
    RetryExhaustedError,
    RetryPolicy,
    SleepDecision,
    StopReason,
)

EC = ErrorClass
ALL_CLASSES = list(ErrorClass)
NONRETRY = (EC.PERMANENT, EC.AUTH, EC.PERMISSION)
BASE_KINDS = {
    "cancelled": asyncio.CancelledError,
    "kbd": KeyboardInterrupt,
    "sysexit": SystemExit,
    "genexit": GeneratorExit,
}

INF = float("inf")
NAN = float("nan")


class Fail(Exception):
    """Exception raised by the operation on attempt i, classified as klass."""

    def __init__(self, i, klass):
        super().__init__(f"fail#{i}")
        self.i = i
        self.klass = klass


# a distinct exception type per attempt (Fail1, Fail2, ...) so that a stale `err` tag shows; created at
# import time (types created under the tracer get CrossHair's module name)
_FAIL_TYPES = {i: type(f"Fail{i}", (Fail,), {"__module__": __name__}) for i in range(0, 16)}


def fail_type(i):
    return _FAIL_TYPES[i]


class Res:
    """Result object returned by the operation on attempt i (klass None = success)."""

    def __init__(self, i, klass):
        self.i = i
        self.klass = klass

    def __repr__(self):
        return f"Res({self.i},{self.klass})"


class HookError(Exception):
    pass


class FalsyCallable:
    """A perfectly legal callback object that happens to be falsy (e.g. a queue-like recorder with __len__ == 0).
    Code that tests `if hook:` / `hook or default` instead of `is not None` silently drops it."""

    def __init__(self, fn):
        self.fn = fn

    def __call__(self, *a, **kw):
        return self.fn(*a, **kw)

    def __len__(self):
        return 0


class SpyBudget(Budget):
    def __init__(self, w, **kw):
        super().__init__(**kw)
        self._w = w

    def consume(self, cost=1):
        ok = super().consume(cost)
        self._w.t(("consume", ok))
        return ok


class SpyBreaker:
    """Wraps a real CircuitBreaker (or nothing) and records the calls it receives."""

    def __init__(self, w, inner=None):
        self._w = w
        self._inner = inner

    @property
    def state(self):
        return self._inner.state if self._inner is not None else redress.CircuitState.CLOSED

    def allow(self):
        if self._inner is not None:
            d = self._inner.allow()
        else:
            from redress.circuit import _BreakerDecision

            d = _BreakerDecision(True, redress.CircuitState.CLOSED, None)
        self._w.t(("br.allow", d.allowed, d.state.value))
        return d

    def record_success(self):
        self._w.t(("br.success",))
        return self._inner.record_success() if self._inner is not None else None

    def record_failure(self, klass):
        self._w.t(("br.failure", klass))
        return self._inner.record_failure(klass) if self._inner is not None else None

    def record_cancel(self):
        self._w.t(("br.cancel",))
        return self._inner.record_cancel() if self._inner is not None else None


def P(params, key, default):
    return params.get(key, default)


class World:
    """Builds configuration + callbacks from ``sym`` according to ``params``.

    params (all optional):
      N            script length (attempts whose outcome is chosen by the solver; later ones succeed)
      kinds        outcome alphabet: "ok", "exc", "res", "abort_exc", "cancelled", "kbd", "sysexit",
                   "genexit", "nested_exhausted", "nested_circuit"
      classes      ErrorClass names used for exc/res outcomes
      max_attempts "sym" | int
      limits       list of class names that get a symbolic per-class limit (absent or 0..N)
      cap          "sym" | None | int     (max_unknown_attempts)
      timed        bool: symbolic durations/overshoots/deadline
      deadline     "sym" | number
      strat        dict(table=[class names with optional own entry], default="sym"|True|False,
                        raw="zero"|"real"|"any", legacy=bool)
      budget       None | "sym" (absent or max_retries 0..N) | int
      abort        bool: abort_if present with symbolic answers
      handler      bool: sleep handler present with symbolic decisions
      hooks        bool: on_metric/on_log recorded (default True)
      rclass_obj   bool: classifiers return Classification objects (with retry_after_s)
    """

    def __init__(self, sym, params):
        self.sym = sym
        self.p = params
        self.N = P(params, "N", 3)
        self.trace = []
        self.n = 0  # op invocations
        self.polls = 0
        self.handler_calls = 0
        self.sleeps = 0
        self.strat_calls = 0
        self.objs = {}  # attempt -> (kind, object, klass)
        self.script = {}  # attempt -> (kind, klass), chosen lazily by the solver, kept across calls
        self.clock = env.Clock(0)
        self.timed = P(params, "timed", False)
        self.is_async = False
        self.classes = [EC[c] for c in P(params, "classes", [c.name for c in ALL_CLASSES])]
        self.kinds = P(params, "kinds", ["ok", "exc", "res"])
        self.pin = P(params, "pin", {})
        # ---- configuration -------------------------------------------------------------
        N = self.N
        ma = P(params, "max_attempts", "sym")
        self.max_attempts = sym.int("max_attempts", 1, N + 1) if ma == "sym" else ma
        self.limits = {}
        for cname in P(params, "limits", []):
            v = sym.int("lim_" + cname, -1, N)
            if v >= 0:
                self.limits[EC[cname]] = v
        cap = P(params, "cap", None)
        if cap == "sym":
            c = sym.int("cap", -1, N)
            self.cap = None if c < 0 else c
        else:
            self.cap = cap
        dl = P(params, "deadline", "sym" if self.timed else 1000000)
        self.deadline = self.dur("deadline") if dl == "sym" else dl
        if self.timed:
            self.clock.now = self.dur("t0")
        # strategies
        st = P(params, "strat", {})
        self.raw_mode = st.get("raw", "zero")
        self.legacy = st.get("legacy", False)
        self.strat_table = {}
        for cname in st.get("table", []):
            if sym.bool("has_strat_" + cname):
                self.strat_table[EC[cname]] = self._mk_strategy(cname)
        d = st.get("default", True)
        has_default = sym.bool("has_default") if d == "sym" else d
        self.default_strategy = self._mk_strategy("default") if has_default else None
        # budget
        b = P(params, "budget", None)
        self.budget = None
        self.tokens = None
        if b == "sym":
            tk = sym.int("tokens", -1, N)
            if tk >= 0:
                self.tokens = tk
        elif b is not None:
            self.tokens = b
        self.has_abort = P(params, "abort", False)
        self.has_handler = P(params, "handler", False)
        self.hooks = P(params, "hooks", True)
        self.rclass_obj = P(params, "rclass_obj", False)
        self.fault = None  # set by fault-plan harnesses
        self.none_class = {}
        self.callno = 0
        self.hook_calls = {}
        self.place = None
        if P(params, "place", False):
            pp = P(params, "pin_place", {})
            self.place = {k: (pp[k] if k in pp else sym.bool(k))
                          for k in ("h_pol", "h_call", "b_pol", "b_call", "s_pol", "s_call")}
            self.place["b_async"] = sym.bool("b_async") if P(params, "async_variants", False) else False
            self.place["s_async"] = sym.bool("s_async") if P(params, "async_variants", False) else True

    def dur(self, name, lo=0):
        """A solver-chosen time quantity: any real, or (params grid=k) a multiple of 1/k microsecond,
        which keeps the microsecond-rounding timedelta model within integer arithmetic."""
        g = P(self.p, "grid", None)
        if g is None:
            return self.sym.real(name, lo=lo)
        return self.sym.int(name, lo, None) / (g * 1000000)

    def choice(self, name, options):
        """Solver-chosen option unless the job pins it (jobs split the space by pinning)."""
        if name in self.pin:
            return options[self.pin[name]]
        return self.sym.choice(name, options)

    # ---- trace ---------------------------------------------------------------------------
    def t(self, ev):
        self.trace.append(ev)

    @property
    def now(self):
        return self.clock.now

    # ---- callbacks -----------------------------------------------------------------------
    def _mk_strategy(self, which):
        w = self

        def body(ctxinfo):
            w.strat_calls += 1
            j = w.strat_calls
            rk = "real"
            if w.raw_mode == "zero":
                raw = 0.0
                rk = "zero"
            elif w.raw_mode == "const":  # distinct concrete values: data-flow is visible without forking
                raw = 0.25 * j
                rk = "const"
            elif w.raw_mode == "real":
                raw = w.dur(f"raw{j}", lo=None)
            else:  # any: real, nan, +inf, -inf
                rk = w.choice(f"rawkind{j}", ["real", "nan", "inf", "-inf"])
                raw = {"nan": NAN, "inf": INF, "-inf": -INF}.get(rk)
                if raw is None:
                    raw = w.dur(f"raw{j}", lo=None)
            w.t(("strategy", which, w.n, ctxinfo, raw, rk))
            if w.timed and P(w.p, "strat_time", False):  # a strategy that itself takes time
                w.clock.now = w.now + w.dur(f"sd{j}")
            f = w.fault
            if f is not None and f.get("site") == "strategy" and f.get("at") in (None, j):
                w.t(("hook_raises", "strategy"))
                raise f["exc"]()
            return raw

        if self.legacy:
            def legacy(attempt, klass, prev_sleep_s):
                return body(dict(attempt=attempt, klass=klass, prev=prev_sleep_s, legacy=True))

            return legacy

        def ctxstrat(ctx):
            return body(dict(attempt=ctx.attempt, klass=ctx.klass, prev=ctx.prev_sleep_s,
                             remaining=ctx.remaining_s, cause=ctx.cause,
                             classification=ctx.classification, legacy=False))

        return ctxstrat

    def _outcome(self, i):
        if i > (self.N if not self.callno else P(self.p, "N_later", self.N)):
            return ("ok", None)
        if i in self.script:
            return self.script[i]
        pre = f"c{self.callno}" if self.callno else ""
        kind = self.choice(f"{pre}o{i}", self.kinds)
        klass = None
        if kind in ("exc", "res", "resnone", "exc_same"):
            klass = self.choice(f"{pre}k{i}", self.classes)
        self.script[i] = (kind, klass)
        return (kind, klass)

    def _op_body(self):
        self.n += 1
        i = self.n
        self.t(("op", i, self.now))
        if self.timed:
            self.clock.now = self.now + self.dur(f"d{i}" + (f"c{self.callno}" if self.callno else ""))
        self.t(("op_end", i, self.now))
        kind, klass = self._outcome(i)
        if kind == "ok":
            obj = Res(i, None)
            self.objs[i] = (kind, obj, None)
            return obj
        if kind == "res":
            obj = Res(i, klass)
            self.objs[i] = (kind, obj, klass)
            return obj
        if kind == "resnone":  # the operation returns None and the result classifier flags None as a failure
            self.none_class[i] = klass
            self.objs[i] = ("res", None, klass)
            return None
        if kind == "exc":
            obj = fail_type(i)(i, klass)
        elif kind == "exc_same":
            # the very same exception instance as the previous failing attempt (e.g. a cached error object, or
            # polling a failed Future); falls back to a fresh one on the first attempt
            prev = self.objs.get(i - 1)
            if prev is not None and prev[0] == "exc" and isinstance(prev[1], Fail):
                obj = prev[1]
                obj.klass = klass
                obj.i = i
            else:
                obj = fail_type(i)(i, klass)
            kind = "exc"
        elif kind == "timeout_exc":
            obj = TimeoutError(f"timeout#{i}")  # builtin; the world's classifier maps it to TRANSIENT
            klass = EC.TRANSIENT
            kind = "exc"
        elif kind == "abort_exc":
            obj = redress.AbortRetry()  # the exported short name (documented alias of AbortRetryError)
        elif kind in BASE_KINDS:
            obj = BASE_KINDS[kind]()
        elif kind == "nested_exhausted":
            obj = RetryExhaustedError(StopReason.MAX_ATTEMPTS_GLOBAL, 1, EC.TRANSIENT, None, None)
        elif kind == "nested_circuit":
            obj = CircuitOpenError("open")
        else:
            raise AssertionError(kind)
        self.objs[i] = (kind, obj, klass)
        raise obj

    def objs_kind_is_failure(self, i):
        """Outcome kind of attempt i is known by the time op_end is traced? No: the outcome is chosen
        after op_end, so look it up lazily from the script (filled in by the time checkers run)."""
        kind = self.script.get(i, ("ok", None))[0] if i <= self.N else "ok"
        return kind in ("exc", "res")

    def op(self):
        return self._op_body()

    async def aop(self):
        # one suspension before the body runs and one after, so that cancellation can arrive
        # both before and after the operation's side effects
        await env.Suspend("op-pre")
        try:
            r = self._op_body()
        except BaseException:
            raise
        await env.Suspend("op-post")
        return r

    def classifier(self, e):
        self.t(("classify", getattr(e, "i", None)))
        f = self.fault
        if f is not None and f.get("site") == "classifier":
            f["count"] = f.get("count", 0) + 1
            if f.get("at") in (None, f["count"]):
                self.t(("hook_raises", "classifier"))
                raise f["exc"]()
        k = getattr(e, "klass", None) or (EC.TRANSIENT if isinstance(e, TimeoutError) else EC.UNKNOWN)
        if self.rclass_obj:
            c = Classification(klass=k, retry_after_s=self._retry_after(e))
            self.classifications[getattr(e, "i", None)] = c
            return c
        return k

    classifications = None

    def _retry_after(self, obj):
        ra = P(self.p, "retry_after", False)
        if ra == "const":
            return 1.5 + getattr(obj, "i", self.n)
        if ra and self.sym.bool(f"has_ra{obj.i}"):
            return self.sym.real(f"ra{obj.i}", lo=0)
        return None

    def result_classifier(self, r):
        k = self.none_class.get(self.n) if r is None else getattr(r, "klass", None)
        self.t(("rclassify", getattr(r, "i", None), k))
        if k is None:
            return None
        if self.rclass_obj:
            c = Classification(klass=k, retry_after_s=self._retry_after(r))
            self.classifications[getattr(r, "i", self.n)] = c
            return c
        return k

    def abort_if(self):
        self.polls += 1
        ans = self.sym.bool(f"poll{self.polls}")
        self.t(("poll", self.polls, ans))
        return ans

    def handler(self, ctx, s, level="call"):
        self.handler_calls += 1
        d = self.choice(f"h{self.handler_calls}",
                        [SleepDecision.SLEEP, SleepDecision.DEFER, SleepDecision.ABORT])
        self.t(("handler", ctx.attempt, s, d, ctx, level))
        if self.timed and P(self.p, "handler_time", False):
            # a handler that takes time (e.g. enqueues the retry somewhere)
            self.clock.now = self.now + self.dur(f"hd{self.handler_calls}")
        return d

    def before_sleep(self, ctx, s, level="call"):
        self.t(("before_sleep", ctx.attempt, s, level, ctx))
        f = self.fault
        if f is not None and f.get("site") == "before_sleep":
            f["count"] = f.get("count", 0) + 1
            if f.get("at") in (None, f["count"]):
                raise f["exc"]()

    async def abefore_sleep(self, ctx, s, level="call"):
        await env.Suspend("before_sleep")
        self.before_sleep(ctx, s, level)

    def _sleep_body(self, s, level="call"):
        self.sleeps += 1
        self.t(("sleep", s, self.now, level))
        f = self.fault
        if f is not None and f.get("site") == "sleeper" and f.get("at") in (None, self.sleeps):
            obj = f["exc"]()
            f["obj"] = obj
            self.t(("sleeper_raises", self.sleeps))
            raise obj
        if self.timed:
            self.clock.now = self.now + s + self.dur(f"ov{self.sleeps}")

    def sleeper(self, s, level="call"):
        self._sleep_body(s, level)

    async def asleeper(self, s, level="call"):
        await env.Suspend("sleep")
        self._sleep_body(s, level)

    def _default_sleep(self, s):
        self._sleep_body(s, "default")

    def _default_asleep(self, s):
        return self.asleeper(s, "default")

    def at_level(self, fn, level):
        """Bind a spy to a placement level (policy / call), keeping its sync/async nature."""
        import inspect

        if inspect.iscoroutinefunction(fn):
            async def bound(*a):
                return await fn(*a, level)
        else:
            def bound(*a):
                return fn(*a, level)
        return self.wrap(bound)

    def wrap(self, fn):
        """params falsy=True: every user callback is handed over as a falsy callable object."""
        return FalsyCallable(fn) if P(self.p, "falsy", False) else fn

    def _attempt_hook(self, which, ctx):
        self.hook_calls[which] = self.hook_calls.get(which, 0) + 1
        self.t((which, ctx.attempt, ctx.decision))
        f = self.fault
        if f is not None and f.get("site") == which and f.get("at") in (None, self.hook_calls[which]):
            self.t(("hook_raises", which))
            raise f["exc"]()

    def on_attempt_start(self, ctx):
        self._attempt_hook("attempt_start", ctx)

    def on_attempt_end(self, ctx):
        self._attempt_hook("attempt_end", ctx)

    def on_metric(self, event, attempt, sleep_s, tags):
        self.t(("metric", event, attempt, sleep_s, dict(tags)))
        f = self.fault
        if f is not None and f.get("site") == "on_metric":
            f["count"] = f.get("count", 0) + 1
            if f.get("at") in (None, f["count"]):
                raise f["exc"]()

    def on_log(self, event, fields):
        self.t(("log", event, dict(fields)))
        f = self.fault
        if f is not None and f.get("site") == "on_log":
            f["count"] = f.get("count", 0) + 1
            if f.get("at") in (None, f["count"]):
                raise f["exc"]()

    # ---- construction of the real objects (inside env.patched) ------------------------------
    def retry_kwargs(self):
        kw = dict(
            classifier=self.classifier,
            result_classifier=self.result_classifier if ("res" in self.kinds or "resnone" in self.kinds) else None,
            strategy=self.default_strategy,
            strategies=dict(self.strat_table),
            deadline_s=self.deadline,
            max_attempts=self.max_attempts,
            max_unknown_attempts=self.cap,
            per_class_max_attempts=dict(self.limits),
        )
        if self.tokens is not None:
            self.budget = SpyBudget(self, max_retries=self.tokens, window_s=1000000000)
            kw["budget"] = self.budget
        pl = self.place
        if pl:
            if pl["h_pol"]:
                kw["sleep"] = self.at_level(self.handler, "policy")
            if pl["b_pol"]:
                kw["before_sleep"] = self.at_level(self.abefore_sleep if (self.is_async and pl["b_async"]) else self.before_sleep, "policy")
            if pl["s_pol"]:
                kw["sleeper"] = self.at_level(self.asleeper if (self.is_async and pl["s_async"]) else self.sleeper, "policy")
        return kw

    def call_kwargs(self, execute=False):
        kw = {}
        if self.hooks:
            kw["on_metric"] = self.wrap(self.on_metric)
            kw["on_log"] = self.wrap(self.on_log)
        if self.has_abort:
            kw["abort_if"] = self.wrap(self.abort_if)
        pl = self.place
        if pl:
            if pl["h_call"]:
                kw["sleep"] = self.at_level(self.handler, "call")
            if pl["b_call"]:
                kw["before_sleep"] = self.at_level(self.abefore_sleep if (self.is_async and pl["b_async"]) else self.before_sleep, "call")
            if pl["s_call"]:
                kw["sleeper"] = self.at_level(self.asleeper if (self.is_async and pl["s_async"]) else self.sleeper, "call")
        else:
            if self.has_handler:
                kw["sleep"] = self.wrap(self.handler)
            kw["sleeper"] = self.wrap(self.asleeper if self.is_async else self.sleeper)
            if P(self.p, "before_sleep", False):
                kw["before_sleep"] = self.wrap(self.abefore_sleep if (self.is_async and P(self.p, "async_before_sleep", False))
                                               else self.before_sleep)
        if P(self.p, "operation", None):
            kw["operation"] = self.p["operation"]
        if P(self.p, "attempt_hooks", False):
            kw["on_attempt_start"] = self.on_attempt_start
            kw["on_attempt_end"] = self.on_attempt_end
        return kw

    def env(self):
        return env.patched(self.clock, td=env.TDus if P(self.p, "td", "exact") == "us" else env.TD,
                           on_sleep=self._default_sleep, on_async_sleep=self._default_asleep)

    # ---- running one entry point ----------------------------------------------------------
    def build(self, entry, *, breaker=None):
        """Construct the real policy object for ``entry`` (must run inside self.env()).

        entry = <component>.<method>; components: retry, aretry (Retry/AsyncRetry), policy, apolicy
        (Policy/AsyncPolicy with that retry and ``breaker``), rp, arp (RetryPolicy/AsyncRetryPolicy sugar),
        deco, adeco (the @retry decorator); methods: call, execute, context (context manager sugar)."""
        comp, meth = entry.split(".")
        self.entry = entry
        self.is_async = comp.startswith("a")
        self.classifications = {}
        rk = self.retry_kwargs()
        if comp == "retry":
            target = Retry(**rk)
        elif comp == "aretry":
            target = AsyncRetry(**rk)
        elif comp == "policy":
            target = Policy(retry=Retry(**rk), circuit_breaker=breaker)
        elif comp == "apolicy":
            target = AsyncPolicy(retry=AsyncRetry(**rk), circuit_breaker=breaker)
        elif comp == "rp":
            target = RetryPolicy(**rk)
        elif comp == "arp":
            target = AsyncRetryPolicy(**rk)
        elif comp in ("retrycfg", "aretrycfg", "rpcfg", "arpcfg"):
            from redress import RetryConfig
            cfg = RetryConfig(deadline_s=rk["deadline_s"], max_attempts=rk["max_attempts"],
                              max_unknown_attempts=rk["max_unknown_attempts"],
                              per_class_max_attempts=rk["per_class_max_attempts"], default_strategy=rk["strategy"],
                              class_strategies=rk["strategies"], result_classifier=rk["result_classifier"],
                              sleep=rk.get("sleep"), before_sleep=rk.get("before_sleep"), sleeper=rk.get("sleeper"),
                              budget=rk.get("budget"))
            cls = {"retrycfg": Retry, "aretrycfg": AsyncRetry, "rpcfg": RetryPolicy, "arpcfg": AsyncRetryPolicy}[comp]
            target = cls.from_config(cfg, classifier=rk["classifier"])
        elif comp in ("rpset", "arpset"):
            # built with loose settings, then tightened by attribute assignment on the wrapper (it forwards to .retry)
            loose = dict(rk, max_attempts=99, max_unknown_attempts=None, per_class_max_attempts=None, budget=None)
            target = (RetryPolicy if comp == "rpset" else AsyncRetryPolicy)(**loose)
            target.max_attempts = rk["max_attempts"]
            target.max_unknown_attempts = rk["max_unknown_attempts"]
            target.per_class_max_attempts = dict(rk["per_class_max_attempts"])
            if "budget" in rk:
                target.budget = rk["budget"]
        elif comp in ("deco", "adeco"):
            ck = self.call_kwargs()
            kw = dict(rk)
            for k in ("sleep", "sleeper", "before_sleep", "on_metric", "on_log", "operation", "abort_if",
                      "on_attempt_start", "on_attempt_end"):
                if k in ck:
                    kw[k] = ck[k]
            if self.is_async:
                async def fn():
                    return await self.aop()
            else:
                def fn():
                    return self.op()
            target = redress.retry(**kw)(fn)
        else:
            raise AssertionError(entry)
        self.target = target
        return target

    def invoke(self, *, inject=None, capture_timeline=False, extra_kwargs=None):
        """One call of the entry point on the already built object; resets per-call counters but
        keeps the outcome script, so a second invocation sees the same operation behaviour."""
        comp, meth = self.entry.split(".")
        self.n = 0
        ck = self.call_kwargs()
        if meth == "execute" and capture_timeline:
            ck["capture_timeline"] = True
        if extra_kwargs:
            ck.update(extra_kwargs)
        self.t(("begin", self.entry, self.now))
        try:
            if comp in ("deco", "adeco"):
                r = env.drive(self.target(), inject=inject) if self.is_async else self.target()
            elif meth == "context":
                if self.is_async:
                    async def use():
                        async with self.target.context(**ck) as call:
                            return await call(self.aop)
                    r = env.drive(use(), inject=inject)
                else:
                    with self.target.context(**ck) as call:
                        r = call(self.op)
            elif self.is_async:
                r = env.drive(getattr(self.target, meth)(self.aop, **ck), inject=inject)
            else:
                r = getattr(self.target, meth)(self.op, **ck)
        except BaseException as e:
            if type(e).__module__.startswith("crosshair") or isinstance(e, (Violation, HarnessError)):
                raise
            self.result = ("raise", e)
        else:
            self.result = ("outcome", r) if meth == "execute" else ("return", r)
        self.t(("end", self.now))
        if not self.sym.symbolic:  # replay: leave a readable trace of this run in the evidence sample
            def compact(e):
                if e[0] in ("metric",):
                    return f"metric:{e[1]}@{e[2]}"
                if e[0] == "log":
                    return None
                if e[0] == "strategy":
                    return f"strategy:{e[1]}->{e[4]}"
                if e[0] == "handler":
                    return f"handler({e[2]})->{e[3].value}"
                return ":".join(str(x) for x in e[:3] if not hasattr(x, "__dict__") or isinstance(x, (int, str)))
            tr = [c for c in (compact(e) for e in self.trace) if c][:60]
            kind, o = self.result
            self.sym.note("trace", tr)
            self.sym.note("result", f"{kind}: {o!r}"[:200])
        return self.result

    def run(self, entry, *, breaker=None, inject=None, capture_timeline=False):
        """entry: 'retry.call' | 'retry.execute' | 'aretry.*' | 'policy.*' | 'apolicy.*' |
        'rp.*' | 'arp.*' (RetryPolicy sugar).
        Returns ('return', obj) | ('raise', exc) | ('outcome', RetryOutcome)."""
        with self.env():
            self.build(entry, breaker=breaker)
            return self.invoke(inject=inject, capture_timeline=capture_timeline)


# ---- helpers for checkers -----------------------------------------------------------------


def segments(trace):
    """Split a single-run trace into per-attempt segments: list of (op_event, [events after it
    until the next op]) plus the prelude before the first op."""
    prelude, segs = [], []
    cur = None
    for ev in trace:
        if ev[0] == "op":
            cur = (ev, [])
            segs.append(cur)
        elif cur is None:
            prelude.append(ev)
        else:
            cur[1].append(ev)
    return prelude, segs


def summarize(w, trace):
    """Facts about one run that several checkers need."""
    prelude, segs = segments(trace)
    info = dict(nops=len(segs), segs=segs, prelude=prelude, final=None, handler=None, delay=None,
                poll_true=any(e[0] == "poll" and e[2] for e in trace), sleeps=[e for e in trace if e[0] == "sleep"],
                op_abort=False)
    if segs:
        op, evs = segs[-1]
        i = op[1]
        kind, obj, klass = w.objs[i]
        info["final"] = dict(i=i, kind=kind, obj=obj, klass=klass)
        hs = [e for e in evs if e[0] == "handler"]
        if hs:
            info["handler"] = hs[-1][3]
            info["delay"] = hs[-1][2]
        info["op_abort"] = kind == "abort_exc"
    # did a poll answer True before the final attempt's operation raised/returned?  (then the final
    # attempt never happened; segments() only creates a segment for invoked operations, so a True poll
    # always comes after the last op event)
    info["poll_true_before_final"] = False
    info["aborted"] = bool(info["poll_true"] or info["op_abort"] or info["handler"] is SleepDecision.ABORT)
    info["deferred"] = (not info["aborted"]) and info["handler"] is SleepDecision.DEFER
    return info


def innermost_frame_name(exc):
    tb = exc.__traceback__
    name = None
    while tb is not None:
        name = tb.tb_frame.f_code.co_name
        tb = tb.tb_next
    return name
