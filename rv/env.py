"""Environment model: virtual monotonic clock, timedelta stubs, fake time/asyncio modules.

Every stub here is part of the claim of the checks that use it (DESIGN.md section 3).
"""
from __future__ import annotations

import asyncio as _real_asyncio
import contextlib
import datetime as _real_datetime
import sys
import time as _real_time


class TD:
    """Linear stand-in for datetime.timedelta(seconds=x): holds x exactly.

    Exact w.r.t. the real class whenever all instants are multiples of 1 us (< 2**33 s)."""

    __slots__ = ("s",)

    def __init__(self, days=0, seconds=0, *a, **kw):
        if days or a or kw:
            raise NotImplementedError("TD stub only models timedelta(seconds=x)")
        self.s = seconds

    def __gt__(self, o):
        return self.s > o.s

    def __lt__(self, o):
        return self.s < o.s

    def __ge__(self, o):
        return self.s >= o.s

    def __le__(self, o):
        return self.s <= o.s

    def __eq__(self, o):
        return isinstance(o, TD) and self.s == o.s

    def __hash__(self):
        return hash(self.s)

    def __sub__(self, o):
        return TD(seconds=self.s - o.s)

    def __add__(self, o):
        return TD(seconds=self.s + o.s)

    def total_seconds(self):
        return self.s

    def __repr__(self):
        return f"TD({self.s!r})"


def _round_half_even(y):
    """round-half-even of y to an integer; a single z3 If-expression on solver reals (no path fork,
    no float re-check), exact arithmetic on Fractions / ints."""
    var = getattr(y, "var", None)
    if var is not None:
        import z3
        from crosshair.libimpl.builtinslib import SymbolicInt
        from crosshair.tracers import NoTracing

        with NoTracing():
            if z3.is_int(var):
                return y
            floor = z3.ToInt(var)
            half = z3.RealVal("1/2")
            return SymbolicInt(z3.If(var != floor + half, z3.ToInt(var + half),
                                     z3.If(floor % 2 == 0, floor, floor + 1)))
    return round(y)


class TDus:
    """timedelta(seconds=x) with the real constructor's microsecond rounding (round-half-even),
    on exact (rational / solver-real) seconds.  total_seconds() returns us / 10**6."""

    __slots__ = ("us",)

    def __init__(self, days=0, seconds=0, *a, _us=None, **kw):
        if days or a or kw:
            raise NotImplementedError
        if _us is not None:
            self.us = _us
            return
        self.us = _round_half_even(seconds * 1000000)

    def __gt__(self, o):
        return self.us > o.us

    def __lt__(self, o):
        return self.us < o.us

    def __ge__(self, o):
        return self.us >= o.us

    def __le__(self, o):
        return self.us <= o.us

    def __eq__(self, o):
        return isinstance(o, TDus) and self.us == o.us

    def __hash__(self):
        return hash(self.us)

    def __sub__(self, o):
        return TDus(_us=self.us - o.us)

    def __add__(self, o):
        return TDus(_us=self.us + o.us)

    def total_seconds(self):
        return self.us / 1000000


class Clock:
    def __init__(self, now=0):
        self.now = now
        self.wall_reads = 0


class FakeTime:
    """Stands in for the ``time`` module inside redress modules."""

    def __init__(self, clock, on_sleep=None, wall=None):
        self._clock = clock
        self._on_sleep = on_sleep
        self._wall = wall

    def monotonic(self):
        return self._clock.now

    def time(self):
        self._clock.wall_reads += 1
        return self._wall() if self._wall else 1.0e9

    def sleep(self, s):
        if self._on_sleep is None:
            raise AssertionError("real time.sleep requested")
        return self._on_sleep(s)

    def __getattr__(self, name):
        return getattr(_real_time, name)


class Suspend:
    """Awaitable that suspends the coroutine exactly once (visible to the trampoline)."""

    def __init__(self, tag=None):
        self.tag = tag

    def __await__(self):
        yield self


class FakeAsyncio:
    """Stands in for the ``asyncio`` module inside redress modules: only sleep() is replaced."""

    def __init__(self, on_sleep=None):
        self._on_sleep = on_sleep

    def sleep(self, s):
        if self._on_sleep is None:
            raise AssertionError("real asyncio.sleep requested")
        return self._on_sleep(s)

    def __getattr__(self, name):
        return getattr(_real_asyncio, name)


_TARGETS = None


def _targets():
    """(module, attr, original) triples to replace; computed once per process (imports are done
    by then because rv.world imports the redress package eagerly)."""
    global _TARGETS
    if _TARGETS is None:
        import redress.policy.runner.async_core  # noqa: F401  make sure everything is loaded
        import redress.policy.runner.sync_core  # noqa: F401
        import redress.policy.decorator  # noqa: F401

        out = []
        for name, mod in list(sys.modules.items()):
            if not (name == "redress" or name.startswith("redress.")) or mod is None:
                continue
            d = getattr(mod, "__dict__", {})
            if d.get("time") is _real_time:
                out.append((mod, "time", _real_time))
            if d.get("timedelta") is _real_datetime.timedelta:
                out.append((mod, "timedelta", _real_datetime.timedelta))
            if d.get("asyncio") is _real_asyncio:
                out.append((mod, "asyncio", _real_asyncio))
        _TARGETS = out
    return _TARGETS


class patched:
    """Replace time / timedelta / asyncio in every loaded redress module (restored on exit)."""

    def __init__(self, clock, *, td=TD, on_sleep=None, on_async_sleep=None, wall=None):
        self.ft = FakeTime(clock, on_sleep, wall)
        self.fa = FakeAsyncio(on_async_sleep)
        self.td = td

    def __enter__(self):
        for mod, attr, _orig in _targets():
            if attr == "time":
                mod.time = self.ft
            elif attr == "timedelta":
                if self.td is not None:
                    mod.timedelta = self.td
            else:
                mod.asyncio = self.fa
        return self.ft

    def __exit__(self, *exc):
        for mod, attr, orig in _targets():
            setattr(mod, attr, orig)
        return False


def drive(coro, inject=None, on_suspend=None):
    """Trampoline: run a coroutine to completion without an event loop.

    ``inject(k)`` is consulted at the k-th suspension (k = 1, 2, ...) and may return an exception
    instance to throw into the coroutine at that await point (task cancellation).
    Returns the coroutine's result or raises what it raises."""
    k = 0
    try:
        coro.send(None)
        while True:
            k += 1
            if on_suspend is not None:
                on_suspend(k)
            exc = inject(k) if inject is not None else None
            if exc is not None:
                coro.throw(exc)
            else:
                coro.send(None)
    except StopIteration as e:
        return e.value
