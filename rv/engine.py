"""Engine A: exhaustive path exploration of real redress code on top of CrossHair's core + z3.

The harness is an ordinary Python function ``harness(sym, params) -> None | (key, message)``.
* Under :func:`explore` it runs with a :class:`Sym` whose values are z3 variables; every branch on
  them is a solver query; the loop enumerates feasible paths until the path tree is exhausted.
* Under :func:`replay` the same function runs under plain CPython (no tracer, no solver) with a
  :class:`ConcreteSym` that hands back the realised values of one path (exact rationals for reals).

Nothing here samples: the verdict of a job is "exhausted, N paths, 0 unknown, 0 violations" or a
list of violating paths with their models.
"""
from __future__ import annotations

import json
import os
import sys
import time
from fractions import Fraction
from time import process_time

SRC = os.environ.get("REDRESS_SRC", "/repo/src")
if SRC not in sys.path:
    sys.path.insert(0, SRC)


class Violation(Exception):
    """Raised by harness helper code to signal a property violation on the current path."""

    def __init__(self, key, msg=""):
        super().__init__(f"{key}: {msg}")
        self.key = key
        self.msg = msg


class ReplayMismatch(BaseException):
    pass


class HarnessError(BaseException):
    """A bug in the harness itself; BaseException so that code under test cannot swallow it."""


class CoverMixin:
    def cover(self, label, cond=True):
        if cond:
            self.covered.add(label)


# --------------------------------------------------------------------------- concrete side


def enc(v):
    """JSON encoding of realised values (exact)."""
    if isinstance(v, bool) or v is None or isinstance(v, (int, str)):
        return v
    if isinstance(v, Fraction):
        return {"q": f"{v.numerator}/{v.denominator}"}
    if isinstance(v, float):
        return {"f": v.hex() if v == v and v not in (float("inf"), float("-inf")) else repr(v)}
    if isinstance(v, (list, tuple)):
        return [enc(x) for x in v]
    if isinstance(v, bytes):
        return {"b": v.hex()}
    raise TypeError(f"cannot encode {type(v)}")


def dec(v):
    if isinstance(v, dict):
        if "q" in v:
            n, d = v["q"].split("/")
            return Fraction(int(n), int(d))
        if "f" in v:
            s = v["f"]
            return float(s) if s in ("nan", "inf", "-inf") else float.fromhex(s)
        if "b" in v:
            return bytes.fromhex(v["b"])
    if isinstance(v, list):
        return [dec(x) for x in v]
    return v


class ConcreteSym(CoverMixin):
    """Feeds the realised values of one explored path back into the same harness."""

    symbolic = False

    def __init__(self, values):
        self.values = dict(values)
        self.used = set()
        self.covered = set()
        self.notes = {}

    def _get(self, name):
        if name not in self.values:
            raise ReplayMismatch(f"replay asked for '{name}', which the recorded path never created")
        self.used.add(name)
        return self.values[name]

    def int(self, name, lo=None, hi=None):
        return self._get(name)

    def bool(self, name):
        return self._get(name)

    def real(self, name, lo=None, hi=None):
        return self._get(name)

    def fp(self, name):
        return self._get(name)

    def str(self, name, maxlen):
        return self._get(name)

    def choice(self, name, options):
        return options[self._get(name)]

    def assume(self, cond):
        if not cond:
            raise ReplayMismatch("assumption false on replay")

    def note(self, k, v):
        self.notes[k] = v


# --------------------------------------------------------------------------- symbolic side

_CH = None


def _ch():
    """Import CrossHair lazily (replay does not need it)."""
    global _CH
    if _CH is None:
        import z3  # noqa
        import crosshair.core_and_libs  # noqa: F401  registers library models
        from crosshair import core, statespace, tracers, util
        from crosshair.libimpl import builtinslib

        class NS:
            pass

        ns = NS()
        ns.z3 = z3
        ns.core = core
        ns.ss = statespace
        ns.tr = tracers
        ns.util = util
        ns.bl = builtinslib
        # count solver work
        ns.solver_calls = 0
        ns.solver_s = 0.0
        orig_check = z3.Solver.check

        def check(self, *a, **kw):
            t0 = time.perf_counter()
            try:
                return orig_check(self, *a, **kw)
            finally:
                ns.solver_calls += 1
                ns.solver_s += time.perf_counter() - t0

        z3.Solver.check = check
        # CrossHair bypasses functools.lru_cache under the tracer, which would hide memoisation bugs in the code under
        # test; keep caches effective and clear every cache that lives in a redress module at the start of each path
        # (so no symbolic value leaks from one path into the next)
        from functools import _lru_cache_wrapper
        core._PATCH_REGISTRATIONS.pop(_lru_cache_wrapper.__call__, None)
        ns.lru = _lru_cache_wrapper
        _CH = ns
    return _CH


class Sym(CoverMixin):
    """Per-path factory of solver variables; remembers them so a violating path can be realised."""

    symbolic = True

    def __init__(self, space, fmode):
        self.space = space
        self.vals = {}
        self.kinds = {}
        self.covered = set()
        self.notes = {}
        self.fmode = fmode

    def _reg(self, name, v, kind):
        if name in self.vals:
            raise HarnessError(f"duplicate symbolic name {name}")
        self.vals[name] = v
        self.kinds[name] = kind
        return v

    def int(self, name, lo=None, hi=None):
        ch = _ch()
        with ch.tr.NoTracing():
            v = ch.bl.SymbolicInt(name + self.space.uniq())
            if lo is not None:
                self.space.add(v.var >= lo)
            if hi is not None:
                self.space.add(v.var <= hi)
        return self._reg(name, v, "int")

    def bool(self, name):
        ch = _ch()
        with ch.tr.NoTracing():
            v = ch.bl.SymbolicBool(name + self.space.uniq())
        return self._reg(name, v, "bool")

    def real(self, name, lo=None, hi=None):
        ch = _ch()
        with ch.tr.NoTracing():
            v = ch.bl.RealBasedSymbolicFloat(name + self.space.uniq(), float)
            if lo is not None:
                self.space.add(v.var >= lo)
            if hi is not None:
                self.space.add(v.var <= hi)
        return self._reg(name, v, "real")

    def fp(self, name):
        ch = _ch()
        with ch.tr.NoTracing():
            v = ch.bl.PreciseIeeeSymbolicFloat(name + self.space.uniq(), float)
        return self._reg(name, v, "fp")

    def str(self, name, maxlen):
        ch = _ch()
        with ch.tr.NoTracing():
            v = ch.core.proxy_for_type(str, name + self.space.uniq())
        with ch.tr.ResumedTracing():
            if not (len(v) <= maxlen):
                raise ch.util.IgnoreAttempt("len bound")
        return self._reg(name, v, "str")

    def choice(self, name, options):
        """Solver-chosen element of a finite list (forks the path once per option)."""
        n = len(options)
        if n == 1:
            self.vals[name] = 0
            self.kinds[name] = "const"
            return options[0]
        i = self.int(name, 0, n - 1)
        for j in range(n - 1):
            if i == j:
                return options[j]
        return options[n - 1]

    def assume(self, cond):
        if not cond:
            raise _ch().util.IgnoreAttempt("assumption")

    def cover(self, label, cond=True):
        """Coverage goal (vacuity guard).  A symbolic condition is not branched on: the goal counts
        as reached when the solver says the condition is satisfiable under this path's condition."""
        if label in self.covered:
            return
        ch = _ch()
        with ch.tr.NoTracing():
            var = getattr(cond, "var", None)
            if var is not None and ch.z3.is_bool(var):
                if self.space.is_possible(var):
                    self.covered.add(label)
                return
        if cond:
            self.covered.add(label)

    def note(self, k, v):
        self.notes[k] = v

    # -- realisation of a violating path -------------------------------------------------
    def realize_all(self):
        ch = _ch()
        z3 = ch.z3
        out = {}
        with ch.tr.NoTracing():
            solver = self.space.solver
            r = solver.check()
            if str(r) != "sat":
                raise RuntimeError(f"model for violating path unavailable: {r}")
            m = solver.model()
            for name, v in self.vals.items():
                kind = self.kinds[name]
                if kind == "const":
                    out[name] = v
                    continue
                if kind == "str":
                    continue
                mv = m.eval(v.var, model_completion=True)
                if kind == "int":
                    out[name] = mv.as_long()
                elif kind == "bool":
                    out[name] = z3.is_true(mv)
                elif kind == "real":
                    if isinstance(mv, z3.AlgebraicNumRef):
                        mv = mv.approx(20)
                    out[name] = mv.as_fraction()
                    out[name] = Fraction(out[name].numerator, out[name].denominator)
                elif kind == "fp":
                    out[name] = ch.ss.model_value_to_python(mv)
        strs = [n for n, k in self.kinds.items() if k == "str"]
        if strs:
            with ch.tr.ResumedTracing():
                for name in strs:
                    out[name] = ch.core.deep_realize(self.vals[name])
        return out


def explore(harness, params, *, max_wall_s=600.0, per_path_s=30.0, fmode=False, max_violations=40,
            stop_on_first=False, ok_samples=2):
    """Enumerate all feasible paths of ``harness`` under the solver.  Returns a stats dict."""
    ch = _ch()
    ss, tr, util = ch.ss, ch.tr, ch.util
    VS = ss.VerificationStatus
    float_repr = ch.bl.PreciseIeeeSymbolicFloat if fmode else ch.bl.RealBasedSymbolicFloat
    root = ss.RootNode()
    st = dict(paths=0, ok=0, ignored=0, unknown=0, exhausted=False, violations=[], covered=[],
              branch_decisions=0, unknown_reasons=[], samples=[])
    covered = set()
    t_wall0 = time.time()
    c0, s0 = ch.solver_calls, ch.solver_s
    nviol = 0
    with ch.core.Patched():
        while True:
            if time.time() - t_wall0 > max_wall_s:
                break
            start = process_time()
            space = ss.StateSpace(execution_deadline=start + per_path_s,
                                  model_check_timeout=per_path_s / 2, search_root=root)
            status = None
            st["paths"] += 1
            _clear_redress_caches(ch.lru)
            with tr.COMPOSITE_TRACER, tr.NoTracing(), ss.StateSpaceContext(space):
                space.extra(ch.bl.ModelingDirector).global_representations[float] = float_repr
                sym = Sym(space, fmode)
                try:
                    try:
                        with tr.ResumedTracing():
                            verdict = harness(sym, params)
                    except Violation as v:
                        verdict = (v.key, v.msg)
                    if verdict is None:
                        status = VS.CONFIRMED
                        st["ok"] += 1
                        covered |= sym.covered
                        if len(st["samples"]) < ok_samples and sym.vals:
                            # realise a few passing paths too: they are replayed on the real code
                            # without the engine (sanity of the replay machinery, evidence samples)
                            try:
                                with tr.ResumedTracing():
                                    space.detach_path()
                                vals = sym.realize_all()
                                st["samples"].append({"values": {k: enc(v) for k, v in vals.items()},
                                                      "notes": _jsonable(sym.notes)})
                            except Exception:  # sampling is best effort
                                pass
                    else:
                        key, msg = verdict
                        with tr.ResumedTracing():
                            space.detach_path()
                        vals = sym.realize_all()
                        nviol += 1
                        if nviol <= max_violations:
                            st["violations"].append(dict(key=str(key), msg=str(msg),
                                                         values={k: enc(v) for k, v in vals.items()}))
                        status = VS.REFUTED if stop_on_first else VS.CONFIRMED
                except util.IgnoreAttempt:
                    st["ignored"] += 1
                    status = None
                except util.UnexploredPath as e:
                    st["unknown"] += 1
                    if len(st["unknown_reasons"]) < 5:
                        st["unknown_reasons"].append(f"{type(e).__name__}: {e}"[:300])
                    status = VS.UNKNOWN
                st["branch_decisions"] += len(space.choices_made)
                _a, exhausted = space.bubble_status(ss.CallAnalysis(status))
            if stop_on_first and nviol:
                break
            if nviol >= max_violations:
                break
            if exhausted:
                st["exhausted"] = True
                break
    st["n_violations"] = nviol
    st["covered"] = sorted(covered)
    st["solver_calls"] = ch.solver_calls - c0
    st["solver_s"] = round(ch.solver_s - s0, 3)
    st["wall_s"] = round(time.time() - t_wall0, 3)
    return st


def _clear_redress_caches(lru_type):
    for name, mod in list(sys.modules.items()):
        if mod is not None and (name == "redress" or name.startswith("redress.")):
            for v in list(vars(mod).values()):
                if isinstance(v, lru_type):
                    v.cache_clear()


def _jsonable(x):
    try:
        json.dumps(x)
        return x
    except TypeError:
        if isinstance(x, dict):
            return {str(k): _jsonable(v) for k, v in x.items()}
        if isinstance(x, (list, tuple)):
            return [_jsonable(v) for v in x]
        return repr(x)


def replay(harness, params, values):
    """Run one recorded path under plain CPython.  Returns (verdict, sym)."""
    sym = ConcreteSym({k: dec(v) for k, v in values.items()})
    from functools import _lru_cache_wrapper
    _clear_redress_caches(_lru_cache_wrapper)
    try:
        verdict = harness(sym, params)
    except Violation as v:
        verdict = (v.key, v.msg)
    return verdict, sym


class CachingSym:
    """Wraps a Sym/ConcreteSym so that asking twice for the same name yields the same value.
    Lets a harness run two worlds on the *same* symbolic behaviour (differential checks)."""

    def __init__(self, inner):
        self._inner = inner
        self._cache = {}
        self.symbolic = inner.symbolic

    def _memo(self, name, make):
        if name not in self._cache:
            self._cache[name] = make()
        return self._cache[name]

    def int(self, name, lo=None, hi=None):
        return self._memo(name, lambda: self._inner.int(name, lo, hi))

    def bool(self, name):
        return self._memo(name, lambda: self._inner.bool(name))

    def real(self, name, lo=None, hi=None):
        return self._memo(name, lambda: self._inner.real(name, lo, hi))

    def choice(self, name, options):
        return options[self._memo("choice:" + name, lambda: options.index(self._inner.choice(name, options)))]

    def assume(self, cond):
        return self._inner.assume(cond)

    def cover(self, label, cond=True):
        return self._inner.cover(label, cond)

    def note(self, k, v):
        return self._inner.note(k, v)


def untraced(fn, *args):
    """Run a pure helper on concrete values outside the symbolic tracer (oracle-side library calls
    such as `re` are very slow under it).  Under replay this is a plain call."""
    if _CH is None:
        return fn(*args)
    with _CH.tr.NoTracing():
        return fn(*args)
