"""Runs one exploration job in its own process: python -m rv.worker <job.json> <out.json>"""
import importlib
import json
import sys
import traceback


def load(spec):
    mod, fn = spec.split(":")
    return getattr(importlib.import_module(mod), fn)


def main():
    job = json.load(open(sys.argv[1]))
    out = {"name": job["name"]}
    try:
        from rv import engine

        h = load(job["harness"])
        st = engine.explore(
            h,
            job["params"],
            max_wall_s=job.get("max_wall_s", 600),
            per_path_s=job.get("per_path_s", 30),
            fmode=job.get("fmode", False),
            max_violations=job.get("max_violations", 40),
        )
        out.update(st)
    except BaseException as e:  # noqa
        out["error"] = "".join(traceback.format_exception(type(e), e, e.__traceback__))[-4000:]
    json.dump(out, open(sys.argv[2], "w"))


if __name__ == "__main__":
    main()
