"""Engine A-threads: turn the methods of a lock-protected class into line-preemptible generators.

The transform is applied to the *current* source of the class (inspect.getsource on the class imported from
REDRESS_SRC), on every run:
  * every method becomes a generator; ``yield ("pc", lineno)`` is inserted before every statement and before every
    evaluation of a ``while`` test (a pre-emption point before every source line);
  * ``with self._lock:`` becomes a try-acquire loop on a model lock that records its owner, with release in ``finally``;
  * calls ``self.<method>(...)`` to transformed methods become ``yield from``;
  * everything else is the original AST.
A scheduler in the harness advances one generator per step; which enabled thread runs is a solver variable.
"""
import ast
import inspect
import textwrap


class ModelLock:
    def __init__(self):
        self.owner = None

    def try_acquire(self, tid):
        if self.owner is None:
            self.owner = tid
            return True
        return False

    def release(self, tid):
        assert self.owner == tid
        self.owner = None


class NoLock:
    """What a class without mutual exclusion looks like (used by the self-test of the harness)."""
    owner = None

    def try_acquire(self, tid):
        return True

    def release(self, tid):
        pass


class _T(ast.NodeTransformer):
    def __init__(self, methods):
        self.methods = methods

    def _yield(self, node, kind="pc"):
        return ast.copy_location(
            ast.Expr(ast.Yield(ast.Tuple([ast.Constant(kind), ast.Constant(getattr(node, "lineno", 0))], ast.Load()))), node)

    def visit_Call(self, node):
        self.generic_visit(node)
        f = node.func
        if isinstance(f, ast.Attribute) and isinstance(f.value, ast.Name) and f.value.id == "self" and f.attr in self.methods:
            node.keywords.append(ast.keyword("_tid", ast.Name("_tid", ast.Load())))
            return ast.copy_location(ast.YieldFrom(node), node)
        return node

    def _block(self, stmts):
        out = []
        for s in stmts:
            out.extend(self._stmt(s))
        return out

    def _stmt(self, s):
        if isinstance(s, ast.With) and len(s.items) == 1 and ast.unparse(s.items[0].context_expr) == "self._lock":
            acquire = ast.parse(textwrap.dedent(f"""
                while not self._lock.try_acquire(_tid):
                    yield ("blocked", {s.lineno})
                """)).body
            body = self._block(s.body)
            rel = ast.parse("self._lock.release(_tid)").body
            tr = ast.Try(body=body, handlers=[], orelse=[], finalbody=rel)
            return [self._yield(s)] + acquire + [ast.copy_location(tr, s)]
        if isinstance(s, ast.If):
            s.test = self.visit(s.test)
            s.body = self._block(s.body)
            s.orelse = self._block(s.orelse)
            return [self._yield(s), s]
        if isinstance(s, ast.While):
            test = self.visit(s.test)
            brk = ast.If(ast.UnaryOp(ast.Not(), test), [ast.Break()], [])
            w = ast.While(ast.Constant(True), [self._yield(s), brk] + self._block(s.body), [])
            return [ast.copy_location(w, s)]
        if isinstance(s, ast.For):
            s.iter = self.visit(s.iter)
            s.body = self._block(s.body)
            return [self._yield(s), s]
        if isinstance(s, ast.Try):
            s.body = self._block(s.body)
            for h in s.handlers:
                h.body = self._block(h.body)
            s.orelse = self._block(s.orelse)
            s.finalbody = self._block(s.finalbody)
            return [self._yield(s), s]
        if isinstance(s, ast.With):
            s.body = self._block(s.body)
            return [self._yield(s), s]
        return [self._yield(s), self.visit(s)]

    def visit_FunctionDef(self, node):
        node.args.kwonlyargs.append(ast.arg("_tid"))
        node.args.kw_defaults.append(ast.Constant(None))
        node.body = self._block(node.body)
        if not any(isinstance(n, (ast.Yield, ast.YieldFrom)) for n in ast.walk(node)):
            node.body.insert(0, ast.Expr(ast.Yield(ast.Tuple([ast.Constant("pc"), ast.Constant(node.lineno)], ast.Load()))))
        node.decorator_list = []
        return node


def preemptible(cls, skip=("__init__",)):
    """Returns (transformed class, transformed source).  Properties become methods named get_<name>."""
    src = textwrap.dedent(inspect.getsource(cls))
    tree = ast.parse(src)
    cdef = tree.body[0]
    props = set()
    for n in cdef.body:
        if isinstance(n, ast.FunctionDef) and any(ast.unparse(d) == "property" for d in n.decorator_list):
            props.add(n.name)
            n.name = "get_" + n.name
            n.decorator_list = []
    methods = {n.name for n in cdef.body if isinstance(n, ast.FunctionDef) and n.name not in skip}
    tr = _T(methods)
    new_body = []
    for n in cdef.body:
        if isinstance(n, ast.FunctionDef) and n.name in methods:
            new_body.append(tr.visit_FunctionDef(n))
        else:
            new_body.append(n)
    cdef.body = new_body
    cdef.name = cls.__name__ + "_P"
    ast.fix_missing_locations(tree)
    mod = inspect.getmodule(cls)
    ns = dict(mod.__dict__)
    code = compile(tree, f"<preemptible {cls.__name__}>", "exec")
    exec(code, ns)
    return ns[cdef.name], ast.unparse(tree), ns


def run_threads(sym, gens, lock, pb, prefix="s", before_step=None):
    """Scheduler: advance one generator per step; the enabled thread to run is a solver choice; at most ``pb``
    pre-emptive context switches (a switch away from a blocked or finished thread is free).
    Returns (results, steps_per_thread) or raises Deadlock."""
    nt = len(gens)
    done = [False] * nt
    res = [None] * nt
    waiting = [False] * nt
    last = None
    pre = 0
    steps = 0
    order = []
    while not all(done):
        en = [t for t in range(nt) if not done[t] and not (waiting[t] and lock.owner not in (None, t))]
        if not en:
            raise Deadlock(order)
        if len(en) == 1:
            t = en[0]
        elif last in en and pre >= pb:
            t = last
        else:
            t = sym.choice(f"{prefix}{steps}", en)
        if last is not None and last in en and t != last:
            pre += 1
        last = t
        steps += 1
        order.append(t)
        if before_step is not None:
            before_step(t)
        try:
            tag = next(gens[t])
            waiting[t] = tag[0] == "blocked"
        except StopIteration as e:
            done[t] = True
            res[t] = e.value
    return res, order


class Deadlock(Exception):
    pass
