"""C09 One breaker record per policy call, by final outcome, not per attempt."""
import asyncio

from rv.world import World, SpyBreaker, summarize, segments

META = dict(
    level="model_checking",
    bounds=dict(
        quick="Policy/AsyncPolicy call+execute with a retry component and a spy breaker: 2 "
              "consecutive calls per policy object, the first with N=3 scripted attempts (later calls: 1) over success, {TRANSIENT, PERMANENT} x "
              "{exception, result}, a builtin TimeoutError, AbortRetryError, CancelledError; symbolic max_attempts, abort_if answers, sleep-handler "
              "decisions (SLEEP/DEFER/ABORT); async: CancelledError thrown at a solver-chosen await point; Policy/AsyncPolicy "
              "without retry: 5 outcome kinds x attempt hook raising (start/end; ValueError, AbortRetryError, "
              "KeyboardInterrupt): exactly one record",
        thorough="N=4",
    ),
    assumptions=["the spy admits every call (admission logic is C07's subject)",
                 "exits through GeneratorExit, nested policy errors and raising callbacks are C08's subject"],
    outside=["attempt_timeout_s"],
)
GOALS = ["success_after_retries", "failure_exc", "failure_res", "failure_scheduled", "cancel_abort_poll", "cancel_abort_handler",
         "cancel_abort_op", "cancel_cancelled", "cancel_at_await", "second_call", "noretry_one_record"]


def h_run(sym, params):
    w = World(sym, params)
    br = SpyBreaker(w, None)
    calls = params.get("calls", 2)
    is_async = params["entry"].startswith("a")
    with w.env():
        w.build(params["entry"], breaker=br)
        for c in range(calls):
            w.trace.clear()
            w.script = {}  # each call gets its own solver-chosen outcome script
            w.callno = c
            injected = []
            inject = None
            if is_async:
                K = sym.int(f"cancel_at_c{c}", 0, params.get("maxk", 8))

                def inject(k, K=K, injected=injected):
                    if k == K:
                        injected.append(k)
                        return asyncio.CancelledError()
                    return None
            w.invoke(inject=inject)
            v = check_records(w, list(w.trace), w.result, sym, bool(injected))
            if v:
                return (v[0], f"call {c + 1}: {v[1]}")
            if c:
                sym.cover("second_call")
    return None


def check_records(w, trace, result, sym, injected):
    info = summarize(w, trace)
    recs = [(idx, e) for idx, e in enumerate(trace) if e[0] in ("br.success", "br.failure", "br.cancel")]
    allows = [e for e in trace if e[0] == "br.allow"]
    if len(allows) != 1:
        return ("allow_count", f"{len(allows)} admission requests for one call")
    if len(recs) != 1:
        return ("record_count", f"{len(recs)} breaker records for one admitted call: {[r[1] for r in recs]}")
    idx, rec = recs[0]
    last_op = max([i for i, e in enumerate(trace) if e[0] in ("op", "op_end")], default=-1)
    if idx < last_op:
        return ("record_between_attempts", f"{rec} reported before the last attempt")
    fin = info["final"]
    cancelled = injected or (fin is not None and fin["kind"] in ("cancelled", "kbd", "sysexit"))
    if info["aborted"] or cancelled:
        exp = ("br.cancel",)
    elif fin["kind"] == "ok":
        exp = ("br.success",)
    else:
        exp = ("br.failure", fin["klass"])
    if rec != exp:
        return ("wrong_record", f"breaker was told {rec}, expected {exp} (final attempt {fin and fin['kind']}, aborted={info['aborted']}, "
                                f"deferred={info['deferred']}, cancelled={cancelled})")
    if exp[0] == "br.success":
        sym.cover("success_after_retries", info["nops"] >= 2)
    elif exp[0] == "br.failure":
        sym.cover("failure_scheduled" if info["deferred"] else ("failure_exc" if fin["kind"] == "exc" else "failure_res"))
    else:
        if injected:
            sym.cover("cancel_at_await")
        elif cancelled:
            sym.cover("cancel_cancelled")
        elif info["op_abort"]:
            sym.cover("cancel_abort_op")
        elif info["poll_true"]:
            sym.cover("cancel_abort_poll")
        else:
            sym.cover("cancel_abort_handler")
    return None


def h_noretry(sym, params):
    """Policy without a retry component: still exactly one record per admitted call, even when an attempt hook raises."""
    from rv import env
    from rv.world import Fail, Res, EC
    from redress import Policy, AsyncPolicy, AbortRetryError

    is_async, meth = params["async"], params["meth"]
    kind = sym.choice("kind", ["ok", "exc", "abort_exc", "cancelled", "kbd"])
    hook = sym.choice("hook_fault", ["none", "start", "end"])
    hexc = sym.choice("hook_exc", [ValueError, AbortRetryError, KeyboardInterrupt]) if hook != "none" else None
    clock = env.Clock(0)

    class W:
        trace = []

        def t(self, ev):
            self.trace.append(ev)
    w = W()
    w.trace = []
    br = SpyBreaker(w, None)

    def body():
        if kind == "ok":
            return Res(1, None)
        raise {"exc": lambda: Fail(1, EC.TRANSIENT), "abort_exc": AbortRetryError, "cancelled": asyncio.CancelledError,
               "kbd": KeyboardInterrupt}[kind]()

    async def abody():
        await env.Suspend()
        return body()

    def on_start(ctx):
        if hook == "start":
            raise hexc()

    def on_end(ctx):
        if hook == "end":
            raise hexc()
    with env.patched(clock):
        pol = (AsyncPolicy if is_async else Policy)(circuit_breaker=br)
        try:
            if is_async:
                env.drive(getattr(pol, meth)(abody, on_attempt_start=on_start, on_attempt_end=on_end))
            else:
                getattr(pol, meth)(body, on_attempt_start=on_start, on_attempt_end=on_end)
        except BaseException as e:
            if type(e).__module__.startswith("crosshair"):
                raise
    recs = [e for e in w.trace if e[0] != "br.allow"]
    if len(recs) != 1:
        return (f"noretry:record_count", f"{'a' if is_async else ''}policy.{meth} without retry, op {kind}, hook {hook} raising "
                                         f"{getattr(hexc, '__name__', None)}: {len(recs)} breaker records {recs}")
    if hook == "none":
        exp = {"ok": ("br.success",), "exc": ("br.failure", EC.TRANSIENT)}.get(kind, ("br.cancel",))
        if recs[0][0] != exp[0]:
            return ("noretry:wrong_record", f"op {kind}: breaker was told {recs[0]}, expected {exp[0]}")
    sym.cover("noretry_one_record")
    return None


def jobs(tier):
    q = tier == "quick"
    N = 3 if q else 4
    out = []
    kinds = ["ok", "exc", "res", "abort_exc", "cancelled", "timeout_exc"]
    wall = 600 if q else 3000
    entries = ["policy.call", "policy.execute", "apolicy.call", "apolicy.execute"]  # (RetryPolicy sugar takes no breaker)
    for entry in entries:
        for o1 in range(len(kinds)):
            out.append(dict(name=f"run:{entry}:o1={kinds[o1]}", harness="rv.props.c09:h_run",
                            params=dict(entry=entry, N=N, kinds=kinds, classes=["TRANSIENT", "PERMANENT"], handler=True,
                                        abort=True, hooks=False, calls=2, N_later=1, pin={"o1": o1}, maxk=3 * N + 1),
                            max_wall_s=wall, weight=3 if o1 in (1, 2) else 1))
    for a in (False, True):
        for meth in ("call", "execute"):
            out.append(dict(name=f"noretry:{'a' if a else ''}policy.{meth}", harness="rv.props.c09:h_noretry",
                            params={"async": a, "meth": meth}, max_wall_s=wall))
    return out
