"""C06 Breaker opens exactly when counted failures reach a threshold in the window."""
from rv.world import EC
from redress import CircuitBreaker, CircuitState

META = dict(
    level="model_checking",
    bounds=dict(
        quick="histories of K=4 operations on a fresh CircuitBreaker, each preceded by a solver-real clock advance >= 0 and "
              "chosen among allow / record_success / record_cancel / record_failure(TRANSIENT | RATE_LIMIT | PERMANENT); "
              "failure_threshold in [1,3], class threshold for RATE_LIMIT absent or in [1,3], trip_on = default or an "
              "explicit set with solver-chosen membership of TRANSIENT and PERMANENT (incl. the empty set), window_s and "
              "recovery_timeout_s solver reals > 0 in either order; after every step state, returned event and admission "
              "decision are compared with a history-based reference written from the statement; inductive step harness from an "
              "ARBITRARY closed state (ghost history of <= 2 live counted failures of either class + <= 2 stale entries "
              "still held by the class bucket, all ages solver reals): one operation must agree with the reference and "
              "re-establish the representation; likewise from an arbitrary open / half-open state (history must stay empty, "
              "2 operations), which extends the claim to histories of any length for thresholds <= 3",
        thorough="K=5",
    ),
    assumptions=["floats as reals (exact boundary ages: age == window_s has aged out, as documented)",
                 "single-threaded use (C17 covers interleavings)",
                 "reference breaker: full list of counted failures since the last transition, counted by comprehension"],
    outside=["thresholds above 3", "IEEE rounding of now - window_s"],
)
GOALS = ["opened_by_global_threshold", "opened_by_class_threshold", "aged_out_failure_ignored", "uncounted_class_ignored",
         "boundary_age_equal_window", "half_open_probe", "closed_after_probe", "reopened_after_failed_probe",
         "empty_trip_on", "failure_before_transition_ignored", "step_opened_by_class", "step_stale_bucket_entry", "step_aged_out", "step_open_covered"]
CLASSES = [EC.TRANSIENT, EC.RATE_LIMIT, EC.PERMANENT]
OPS = ["allow", "success", "cancel", "fail_T", "fail_R", "fail_P"]


class RefBreaker:
    """Written from the statement of C06/C07, not from circuit.py."""

    def __init__(self, thr, class_thr, counted, window, recovery):
        self.thr, self.class_thr, self.counted, self.window, self.recovery = thr, class_thr, counted, window, recovery
        self.state = "closed"
        self.hist = []  # (t, class) counted failures since the last transition
        self.opened_at = None
        self.probe = False

    def allow(self, now):
        if self.state == "open":
            if now - self.opened_at >= self.recovery:
                self.state, self.probe = "half_open", True
                return (True, "half_open", "circuit_half_open")
            return (False, "open", "circuit_rejected")
        if self.state == "half_open":
            if self.probe:
                return (False, "half_open", "circuit_rejected")
            self.probe = True
            return (True, "half_open", None)
        return (True, "closed", None)

    def success(self, now):
        if self.state == "half_open":
            self.state, self.probe, self.hist, self.opened_at = "closed", False, [], None
            return "circuit_closed"
        return None

    def cancel(self, now):
        if self.state == "half_open":
            self.probe = False
        return None

    def fail(self, k, now, sym=None):
        if self.state == "half_open":
            self.state, self.probe, self.hist, self.opened_at = "open", False, [], now
            return "circuit_opened"
        if self.state == "open":
            return None
        if k not in self.counted:
            if sym:
                sym.cover("uncounted_class_ignored")
            return None
        self.hist.append((now, k))
        live = [(t, c) for (t, c) in self.hist if now - t < self.window]
        if sym:
            sym.cover("aged_out_failure_ignored", len(live) < len(self.hist))
            if len(self.hist) >= 2:
                sym.cover("boundary_age_equal_window", now - self.hist[0][0] == self.window)
        by_global = len(live) >= self.thr
        ct = self.class_thr.get(k)
        by_class = ct is not None and len([1 for (t, c) in live if c is k]) >= ct
        if by_global or by_class:
            if sym:
                sym.cover("opened_by_global_threshold" if by_global else "opened_by_class_threshold")
            self.state, self.opened_at, self.hist = "open", now, []
            return "circuit_opened"
        return None


def h_hist(sym, params):
    K = params["K"]
    thr = sym.int("thr", 1, 3)
    ct = sym.int("class_thr", 0, 3)  # 0 = absent
    class_thr = {EC.RATE_LIMIT: ct} if ct >= 1 else {}
    explicit = sym.bool("explicit_trip_on")
    if explicit:
        trip = set()
        if sym.bool("trip_T"):
            trip.add(EC.TRANSIENT)
        if sym.bool("trip_P"):
            trip.add(EC.PERMANENT)
        if not trip:
            sym.cover("empty_trip_on")
    else:
        trip = None
    window = sym.real("window", lo=0)
    recovery = sym.real("recovery", lo=0)
    sym.assume(window > 0)
    sym.assume(recovery > 0)
    now = [sym.real("t0", lo=0)]
    b = CircuitBreaker(failure_threshold=thr, window_s=window, recovery_timeout_s=recovery, trip_on=trip,
                       class_thresholds=class_thr, clock=lambda: now[0])
    if trip is not None:
        # the caller's set is configuration, not breaker state: a sibling breaker built from the same set object (with a
        # class threshold on yet another class) must not change this breaker, and the set itself must stay as given
        given = set(trip)
        CircuitBreaker(failure_threshold=1, window_s=window, recovery_timeout_s=recovery, trip_on=trip,
                       class_thresholds={EC.RATE_LIMIT: 1, EC.PERMANENT: 1}, clock=lambda: now[0])
        trip = given  # the reference goes by what this breaker was configured with
    counted = (set(trip) if trip is not None else {EC.TRANSIENT, EC.SERVER_ERROR}) | set(class_thr)
    ref = RefBreaker(thr, class_thr, counted, window, recovery)
    pins = params.get("pin_ops", [])
    transitions = 0
    for j in range(K):
        now[0] = now[0] + sym.real(f"adv{j}", lo=0)
        op = OPS[pins[j]] if j < len(pins) else sym.choice(f"op{j}", OPS)
        t = now[0]
        if op == "allow":
            d = b.allow()
            got = (d.allowed, d.state.value, d.event)
            exp = ref.allow(t)
            if exp[1] == "half_open" and exp[0]:
                sym.cover("half_open_probe")
        elif op == "success":
            got, exp = b.record_success(), ref.success(t)
            if exp == "circuit_closed":
                sym.cover("closed_after_probe")
        elif op == "cancel":
            got, exp = b.record_cancel(), ref.cancel(t)
        else:
            k = {"fail_T": EC.TRANSIENT, "fail_R": EC.RATE_LIMIT, "fail_P": EC.PERMANENT}[op]
            pre = ref.state
            got, exp = b.record_failure(k), ref.fail(k, t, sym)
            if pre == "half_open":
                sym.cover("reopened_after_failed_probe")
            if exp is None and pre == "closed" and transitions and k in counted:
                sym.cover("failure_before_transition_ignored")
        if exp in ("circuit_opened", "circuit_closed"):
            transitions += 1
        if got != exp:
            return ("step_result", f"step {j} {op}: breaker returned {got}, reference {exp}")
        if b.state.value != ref.state:
            return ("state", f"after step {j} {op}: breaker is {b.state.value}, reference {ref.state}")
    return None


def h_step(sym, params):
    """Inductive step from an ARBITRARY closed state (histories of any length).

    Ghost history: R = counted failures since the last transition that are newer than (p - window), p = instant of the
    last counted failure (these are exactly what the global deque holds after its last prune, and there are fewer than
    failure_threshold of them, otherwise the breaker would have opened); S = older RATE_LIMIT failures that the class
    bucket may still hold physically because it is only pruned when a RATE_LIMIT failure arrives (stale entries:
    <= p - window, hence aged out for every future instant).  Anything older was pruned and can never count again.
    One operation at now >= p must behave like the reference on R (S contributes nothing) and re-establish the
    representation."""
    thr = sym.int("thr", 1, 3)
    ct = sym.int("class_thr", 0, 3)
    class_thr = {EC.RATE_LIMIT: ct} if ct >= 1 else {}
    window = sym.real("window", lo=0)
    recovery = sym.real("recovery", lo=0)
    sym.assume(window > 0)
    sym.assume(recovery > 0)
    nr = sym.int("nr", 0, 2)
    sym.assume(nr < thr)
    # R: nr entries ending at p, all within (p - window, p]
    t = sym.real("r0", lo=0)
    R = []
    for i in range(2):
        if i < nr:
            k = sym.choice(f"rk{i}", [EC.TRANSIENT, EC.RATE_LIMIT]) if ct >= 1 else EC.TRANSIENT
            R.append((t, k))
            if i + 1 < nr:
                t = t + sym.real(f"rgap{i}", lo=0)
    p = R[-1][0] if R else None
    if R:
        sym.assume(p - R[0][0] < window)
    rclass = [x for (x, k) in R if k is EC.RATE_LIMIT]
    # S: stale RATE_LIMIT entries still sitting in the class bucket
    S = []
    if ct >= 1 and R:
        ns = sym.int("ns", 0, 2)
        s0 = p - window - sym.real("stale_age", lo=0)  # <= p - window
        for i in range(2):
            if i < ns:
                S.append(s0 + (sym.real("sgap", lo=0) if i == 1 else 0))
        if len(S) == 2:
            sym.assume(S[1] <= p - window)
        for x in S:
            sym.assume(x >= 0)
        # bucket was last pruned at p_k = latest RATE_LIMIT failure; everything it holds is newer than p_k - window
        bucket = S + rclass
        if bucket:
            pk = bucket[-1]
            for x in bucket:
                sym.assume(x > pk - window)
        sym.assume(len(bucket) < ct)
    else:
        bucket = list(rclass)
        if ct >= 1:
            sym.assume(len(bucket) < ct)
    now = [(p if p is not None else 0) + sym.real("since", lo=0)]
    b = CircuitBreaker(failure_threshold=thr, window_s=window, recovery_timeout_s=recovery, class_thresholds=class_thr,
                       clock=lambda: now[0])
    for (x, _k) in R:
        b._failures.append(x)
    if bucket or sym.bool("empty_bucket_present"):
        from collections import deque
        b._class_failures[EC.RATE_LIMIT] = deque(bucket)
    op = OPS[params["pin_op"]]
    if op in ("allow", "success", "cancel"):
        before = (list(b._failures), {k: list(v) for k, v in b._class_failures.items()})
        got = {"allow": lambda: (lambda d: (d.allowed, d.state.value, d.event))(b.allow()), "success": b.record_success,
               "cancel": b.record_cancel}[op]()
        exp = (True, "closed", None) if op == "allow" else None
        if got != exp or b.state is not CircuitState.CLOSED:
            return ("step:closed_op", f"{op} on a closed breaker returned {got}, state {b.state.value}")
        if (list(b._failures), {k: list(v) for k, v in b._class_failures.items()}) != before:
            return ("step:closed_op_mutates", f"{op} on a closed breaker changed the failure history")
        return None
    k = {"fail_T": EC.TRANSIENT, "fail_R": EC.RATE_LIMIT, "fail_P": EC.PERMANENT}[op]
    t_now = now[0]
    counted = {EC.TRANSIENT, EC.SERVER_ERROR} | set(class_thr)
    got = b.record_failure(k)
    if k not in counted:
        if got is not None or b.state is not CircuitState.CLOSED or len(b._failures) != len(R):
            return ("step:uncounted", f"failure of {k.name} (not counted) returned {got}")
        return None
    live = [(x, c) for (x, c) in R if t_now - x < window]
    live_k = [x for (x, c) in live if c is k]
    by_global = len(live) + 1 >= thr
    by_class = k in class_thr and len(live_k) + 1 >= class_thr[k]
    exp = "circuit_opened" if (by_global or by_class) else None
    if got != exp:
        return ("step:open_decision", f"record_failure({k.name}) at {t_now} returned {got}, reference {exp}: live {live} of R={R}, "
                                      f"stale bucket entries {S}, thr {thr}, class_thr {class_thr}, window {window}")
    sym.cover("step_opened_by_class", by_class and not by_global)
    sym.cover("step_stale_bucket_entry", len(S) >= 1 and k is EC.RATE_LIMIT)
    sym.cover("step_aged_out", len(live) < len(R))
    if exp:
        if b.state is not CircuitState.OPEN or b._failures or b._class_failures or b._opened_at != t_now:
            return ("step:open_state", "after opening the history must be empty and opened_at = now")
        return None
    # representation re-established
    if list(b._failures) != [x for (x, c) in live] + [t_now]:
        return ("step:representation", f"global deque {list(b._failures)} != live failures + new {[x for (x, c) in live] + [t_now]}")
    if k in class_thr and list(b._class_failures.get(k, [])) != live_k + [t_now]:
        return ("step:representation", f"class bucket {list(b._class_failures.get(k, []))} != live class failures + new {live_k + [t_now]}")
    if len(b._failures) >= thr:
        return ("step:representation", "closed with failure_threshold entries")
    return None


def h_step_open(sym, params):
    """Inductive step from an arbitrary OPEN or HALF-OPEN state.  Representation invariant there: the failure history is
    empty, `opened_at` <= now, a probe can only be in flight while half-open.  Every operation must agree with the
    reference, keep the history empty while not closed, and hand over an empty history when it closes."""
    thr = sym.int("thr", 1, 3)
    window = sym.real("window", lo=0)
    recovery = sym.real("recovery", lo=0)
    sym.assume(window > 0)
    sym.assume(recovery > 0)
    opened_at = sym.real("opened_at", lo=0)
    now = [opened_at + sym.real("since", lo=0)]
    init = sym.choice("init", ["open", "half", "half_probe"])
    b = CircuitBreaker(failure_threshold=thr, window_s=window, recovery_timeout_s=recovery, clock=lambda: now[0])
    ref = RefBreaker(thr, {}, {EC.TRANSIENT, EC.SERVER_ERROR}, window, recovery)
    b._state = CircuitState.OPEN if init == "open" else CircuitState.HALF_OPEN
    b._opened_at = opened_at
    b._probe_in_flight = init == "half_probe"
    ref.state = "open" if init == "open" else "half_open"
    ref.opened_at = opened_at
    ref.probe = init == "half_probe"
    for j in range(params["K"]):
        op = OPS[params["pin_op"]] if j == 0 else sym.choice(f"op{j}", OPS)
        if j:
            now[0] = now[0] + sym.real(f"adv{j}", lo=0)
        t = now[0]
        if op == "allow":
            d = b.allow()
            got, exp = (d.allowed, d.state.value, d.event), ref.allow(t)
        elif op == "success":
            got, exp = b.record_success(), ref.success(t)
        elif op == "cancel":
            got, exp = b.record_cancel(), ref.cancel(t)
        else:
            k = {"fail_T": EC.TRANSIENT, "fail_R": EC.RATE_LIMIT, "fail_P": EC.PERMANENT}[op]
            got, exp = b.record_failure(k), ref.fail(k, t)
        if got != exp:
            return ("step_open:result", f"from {init}: step {j} {op} returned {got}, reference {exp}")
        if b.state.value != ref.state:
            return ("step_open:state", f"from {init}: after step {j} {op} breaker is {b.state.value}, reference {ref.state}")
        if b.state is not CircuitState.CLOSED and (b._failures or any(b._class_failures.values())):
            return ("step_open:history_not_empty", f"from {init}: after {op} the breaker is {b.state.value} but keeps failures "
                                                   f"{list(b._failures)} (they would count after the next close)")
        if b.state is CircuitState.CLOSED:
            # the deque may have pruned aged-out entries, but it holds nothing from before the close and every failure
            # that is still inside the window
            have = list(b._failures)
            since_close = [x for (x, _c) in ref.hist]
            for x in have:
                if x not in since_close:
                    return ("step_open:history_after_close", f"from {init}: closed breaker keeps {x}, which is not a failure recorded "
                                                             f"since it closed ({since_close})")
            for x in since_close:
                if t - x < window and x not in have:
                    return ("step_open:history_after_close", f"from {init}: failure at {x} is still inside the window but missing from {have}")
        if b._probe_in_flight and b.state is not CircuitState.HALF_OPEN:
            return ("step_open:probe_flag", f"probe flag set while {b.state.value}")
        if b.state is CircuitState.OPEN and b._opened_at != ref.opened_at:
            return ("step_open:opened_at", f"opened_at {b._opened_at}, reference {ref.opened_at}")
    sym.cover("step_open_covered")
    return None


def jobs(tier):
    q = tier == "quick"
    K = 4 if q else 5
    out = []
    for a in range(len(OPS)):
        for b_ in range(len(OPS)):
            for c_ in (range(len(OPS)) if not q else [None]):
                pins = [a, b_] + ([c_] if c_ is not None else [])
                out.append(dict(name=f"hist:K={K}:" + ",".join(OPS[x] for x in pins), harness="rv.props.c06:h_hist",
                                params=dict(K=K, pin_ops=pins), max_wall_s=600 if q else 2400,
                                weight=3 if OPS[a].startswith("fail") else 1))
    for o in range(len(OPS)):
        out.append(dict(name=f"step:open:{OPS[o]}", harness="rv.props.c06:h_step_open", params=dict(pin_op=o, K=2 if q else 3),
                        max_wall_s=600 if q else 3000, weight=1))
    for o in range(len(OPS)):
        out.append(dict(name=f"step:closed:{OPS[o]}", harness="rv.props.c06:h_step", params=dict(pin_op=o),
                        max_wall_s=600 if q else 3000, weight=2))
    return out
