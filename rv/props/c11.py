"""C11 execute() returns a faithful RetryOutcome and does not raise for failures."""
from rv.world import World, summarize, BASE_KINDS
from redress import StopReason, RetryOutcome

META = dict(
    level="model_checking",
    bounds=dict(
        quick="whole runs through execute() of Retry, Policy(retry), RetryPolicy and async twins: N=3 scripted attempts "
              "over success, {TRANSIENT, PERMANENT} x {exception, result}, AbortRetryError, CancelledError, "
              "KeyboardInterrupt, nested RetryExhaustedError; symbolic max_attempts, TRANSIENT limit, abort_if answers, "
              "sleep-handler decisions, budget tokens; timed variant with post-sleep deadline overshoot (N=2); "
              "Policy without retry (single attempt, 8 outcome kinds)",
        thorough="N=4 (timed N=3)",
    ),
    assumptions=["frozen clock except in the timed jobs; attempt_timeout_s None",
                 "for runs aborted between a failure and its classification the outcome may describe the last *recorded* "
                 "failure; only consistency of the fields is required there (the statement does not fix it)",
                 "for a Policy without retry and for breaker rejections stop_reason is None by construction"],
    outside=["attempt_timeout_s", "errors raised by user strategy/classifier/sleeper callbacks (they propagate by design)"],
)
GOALS = ["ok", "failed_exc", "failed_res", "scheduled", "aborted_poll", "aborted_op", "aborted_handler",
         "cancel_propagates", "nested_exhausted_propagates", "post_sleep_deadline", "noretry_exception", "noretry_ok"]
ENTRIES = ["retry.execute", "aretry.execute", "policy.execute", "apolicy.execute", "rp.execute", "arp.execute"]


def h_run(sym, params):
    w = World(sym, params)
    w.run(params["entry"], capture_timeline=params.get("timeline", False))
    return check_execute(w, w.trace, w.result, sym)


def check_execute(w, trace, result, sym):
    info = summarize(w, trace)
    kind, out = result
    fin = info["final"]
    nops = info["nops"]
    propagating = fin is not None and (fin["kind"] in BASE_KINDS or fin["kind"] == "nested_exhausted") \
        and not info["poll_true_before_final"]
    if propagating:
        if kind != "raise" or out is not fin["obj"]:
            return ("cancel_not_propagated", f"{fin['kind']} raised by attempt {fin['i']} did not leave execute() unchanged: {kind} {out!r}")
        sym.cover("cancel_propagates" if fin["kind"] in BASE_KINDS else "nested_exhausted_propagates")
        return None
    if kind != "outcome" or not isinstance(out, RetryOutcome):
        return ("execute_raised", f"execute() raised {out!r} instead of returning an outcome")
    if out.attempts != nops:
        return ("attempts", f"attempts={out.attempts}, operation invoked {nops} times")
    failures = {}
    for (op, _e) in info["segs"]:
        k, o, kl = w.objs[op[1]]
        if k in ("exc", "res"):
            failures[id(o)] = (k, o, kl)
    if info["aborted"]:
        if out.ok or out.stop_reason is not StopReason.ABORTED:
            return ("abort_outcome", f"aborted run: ok={out.ok} stop_reason={out.stop_reason}")
        if out.value is not None or out.next_sleep_s is not None:
            return ("abort_outcome", "aborted run carries value/next_sleep_s")
        # consistency of whatever failure is described
        le, lr = out.last_exception, out.last_result
        if le is not None and lr is not None:
            return ("abort_outcome", "both last_exception and last_result set")
        o = le if le is not None else lr
        if o is not None:
            f = failures.get(id(o))
            if f is None or out.last_class is not f[2] or out.cause != ("exception" if f[0] == "exc" else "result"):
                return ("abort_outcome", f"aborted outcome describes no failure of this run consistently: {out}")
        elif not failures and (out.last_class is not None or out.cause is not None):
            return ("abort_outcome", f"aborted before any failure but last_class={out.last_class} cause={out.cause}")
        sym.cover("aborted_op" if info["op_abort"] else ("aborted_poll" if info["poll_true"] else "aborted_handler"))
        return None
    if fin["kind"] == "ok":
        if not out.ok or out.value is not fin["obj"]:
            return ("ok_value", f"final attempt succeeded but ok={out.ok} value={out.value!r}")
        if (out.stop_reason, out.last_class, out.last_exception, out.last_result, out.cause, out.next_sleep_s) != (None,) * 6:
            return ("ok_fields", f"successful outcome carries failure fields: {out}")
        sym.cover("ok")
        return None
    # failed, not aborted
    if out.ok or out.value is not None:
        return ("failed_ok", f"final attempt failed but ok={out.ok} value={out.value!r}")
    if out.last_class is not fin["klass"]:
        return ("last_class", f"last_class={out.last_class}, final failure was {fin['klass']}")
    if fin["kind"] == "exc":
        if out.cause != "exception" or out.last_exception is not fin["obj"] or out.last_result is not None:
            return ("last_exception", f"cause={out.cause} last_exception={out.last_exception!r} last_result={out.last_result!r}")
    else:
        if out.cause != "result" or out.last_result is not fin["obj"] or out.last_exception is not None:
            return ("last_result", f"cause={out.cause} last_exception={out.last_exception!r} last_result={out.last_result!r}")
    if info["deferred"]:
        if out.stop_reason is not StopReason.SCHEDULED or out.next_sleep_s is None or out.next_sleep_s != info["delay"]:
            return ("scheduled", f"deferred run: stop_reason={out.stop_reason} next_sleep_s={out.next_sleep_s} delay={info['delay']}")
        sym.cover("scheduled")
    else:
        if out.next_sleep_s is not None:
            return ("next_sleep_s", f"next_sleep_s={out.next_sleep_s} on a run that was not deferred")
        if out.stop_reason is None or out.stop_reason in (StopReason.SCHEDULED, StopReason.ABORTED):
            return ("stop_reason", f"failed run reports stop_reason={out.stop_reason}")
        if w.timed and info["sleeps"] and out.stop_reason is StopReason.DEADLINE_EXCEEDED:
            sym.cover("post_sleep_deadline")
        sym.cover("failed_exc" if fin["kind"] == "exc" else "failed_res")
    return None


def h_noretry(sym, params):
    """Policy/AsyncPolicy without a retry component: single attempt."""
    from rv import env
    from rv.world import Fail, Res, EC
    from redress import Policy, AsyncPolicy, AbortRetryError, RetryExhaustedError, CircuitOpenError
    import asyncio

    kinds = ["ok", "exc", "abort_exc", "cancelled", "kbd", "sysexit", "nested_exhausted", "nested_circuit"]
    kind = sym.choice("kind", kinds)
    is_async = params["async"]
    n = [0]
    made = {}

    def body():
        n[0] += 1
        if kind == "ok":
            made["o"] = Res(1, None)
            return made["o"]
        made["o"] = {"exc": lambda: Fail(1, EC.UNKNOWN), "abort_exc": AbortRetryError, "cancelled": asyncio.CancelledError,
                     "kbd": KeyboardInterrupt, "sysexit": SystemExit,
                     "nested_exhausted": lambda: RetryExhaustedError(StopReason.MAX_ATTEMPTS_GLOBAL, 1, None, None, None),
                     "nested_circuit": lambda: CircuitOpenError("open")}[kind]()
        raise made["o"]

    async def abody():
        await env.Suspend()
        return body()

    pre_abort = sym.bool("pre_abort")
    clock = env.Clock(0)
    with env.patched(clock):
        pol = (AsyncPolicy if is_async else Policy)()
        try:
            if is_async:
                r = env.drive(pol.execute(abody, abort_if=lambda: pre_abort))
            else:
                r = pol.execute(body, abort_if=lambda: pre_abort)
            res = ("outcome", r)
        except BaseException as e:
            if type(e).__module__.startswith("crosshair"):
                raise
            res = ("raise", e)
    if pre_abort:
        if res[0] != "outcome" or res[1].ok or res[1].stop_reason is not StopReason.ABORTED or res[1].attempts != 0 or n[0]:
            return ("noretry:preabort", f"{res}")
        return None
    if kind in ("cancelled", "kbd", "sysexit"):
        if res[0] != "raise" or res[1] is not made["o"]:
            return ("noretry:cancel", f"{kind} did not propagate unchanged: {res}")
        return None
    if res[0] != "outcome":
        return ("noretry:raised", f"execute() raised {res[1]!r} for outcome kind {kind}")
    out = res[1]
    if out.attempts != 1:
        return ("noretry:attempts", f"attempts={out.attempts}")
    if kind == "ok":
        if not out.ok or out.value is not made["o"]:
            return ("noretry:ok", f"{out}")
        sym.cover("noretry_ok")
    elif kind == "abort_exc":
        if out.ok or out.stop_reason is not StopReason.ABORTED:
            return ("noretry:abort", f"{out}")
    else:
        if out.ok or out.last_exception is not made["o"] or out.cause != "exception" or out.last_result is not None \
                or out.next_sleep_s is not None or out.last_class is None:
            return ("noretry:exception", f"{out}")
        sym.cover("noretry_exception")
    return None


def jobs(tier):
    q = tier == "quick"
    N = 3 if q else 4
    out = []
    kinds = ["ok", "exc", "res", "resnone", "abort_exc", "cancelled", "kbd", "nested_exhausted"]
    for entry in ENTRIES:
        for o1 in range(len(kinds)):
            out.append(dict(name=f"run:{entry}:o1={kinds[o1]}", harness="rv.props.c11:h_run",
                            params=dict(entry=entry, N=N, kinds=kinds, classes=["TRANSIENT", "PERMANENT"],
                                        limits=["TRANSIENT"], handler=True, abort=True, budget="sym", pin={"o1": o1}),
                            max_wall_s=600 if q else 3000, weight=3 if o1 in (1, 2, 3) else 1))
    for entry in ENTRIES[:2] if q else ENTRIES:
        out.append(dict(name=f"timed:{entry}", harness="rv.props.c11:h_run",
                        params=dict(entry=entry, N=2 if q else 3, kinds=["ok", "exc", "res"], classes=["TRANSIENT"],
                                    timed=True, strat=dict(raw="real")),
                        max_wall_s=600 if q else 3000, weight=2))
    for a in (False, True):
        out.append(dict(name=f"noretry:{'async' if a else 'sync'}", harness="rv.props.c11:h_noretry",
                        params={"async": a}, max_wall_s=300))
    return out
