"""C04 call() surfaces exactly the last attempt's value or exception."""
from rv.world import World, summarize, innermost_frame_name, BASE_KINDS
from redress import AbortRetryError, RetryExhaustedError, StopReason

META = dict(
    level="model_checking",
    bounds=dict(
        quick="whole runs through the call() of Retry, Policy, RetryPolicy and async twins: N=3 scripted attempts over "
              "success + {TRANSIENT, PERMANENT} x {exception, result, a None result flagged by the result classifier} (mixed histories), symbolic max_attempts, "
              "per-class limit for TRANSIENT, sleep handler SLEEP/DEFER/ABORT, budget tokens; fresh exception/result "
              "object per attempt, identity (`is`) compared",
        thorough="N=3 with the UNKNOWN class and cap added; N=4 over success / exception / result",
    ),
    assumptions=["frozen clock except where stated; zero strategy unless raw=real; attempt_timeout_s None",
                 "which stop reason is valid is C03's subject; here the delivered fields must describe the final attempt"],
    outside=["attempt_timeout_s (a func-raised TimeoutError is replaced by _call_with_timeout on Python >= 3.11)"],
)
GOALS = ["same_exception_instance_twice", "none_result_is_failure", "return_first_success", "raise_last_exception", "exhausted_on_result", "scheduled_exc", "scheduled_res",
         "mixed_exc_then_res", "mixed_res_then_exc", "aborted"]
ENTRIES = ["retry.call", "aretry.call", "policy.call", "apolicy.call", "rp.call", "arp.call"]


def h_run(sym, params):
    w = World(sym, params)
    w.run(params["entry"])
    return check_call(w, w.trace, w.result, sym)


def check_call(w, trace, result, sym):
    info = summarize(w, trace)
    kind, obj = result
    fin = info["final"]
    if fin is None:
        if not (kind == "raise" and isinstance(obj, AbortRetryError)):
            return ("no_attempt_result", f"no attempt ran but call() gave {kind} {obj!r}")
        return None
    kinds_seen = [w.objs[s[0][1]][0] for s in info["segs"]]
    if info["aborted"]:
        if not (kind == "raise" and isinstance(obj, AbortRetryError)):
            return ("abort_not_raised", f"aborted run delivered {kind} {obj!r}")
        sym.cover("aborted")
        return None
    if fin["kind"] == "ok":
        if kind != "return" or obj is not fin["obj"]:
            return ("wrong_return", f"call() did not return the successful attempt's own object: {kind} {obj!r}")
        sym.cover("return_first_success")
        return None
    if fin["kind"] in BASE_KINDS or fin["kind"] == "nested_exhausted":
        if kind != "raise" or obj is not fin["obj"]:
            return ("cancel_not_propagated", f"{fin['kind']} from attempt {fin['i']} was not propagated unchanged")
        return None
    if kind != "raise":
        return ("failure_returned", f"final attempt failed but call() returned {obj!r}")
    if "exc" in kinds_seen[:-1] and fin["kind"] == "res":
        sym.cover("mixed_exc_then_res")
    if "res" in kinds_seen[:-1] and fin["kind"] == "exc":
        sym.cover("mixed_res_then_exc")
    if info["deferred"] or fin["kind"] == "res":
        if not isinstance(obj, RetryExhaustedError):
            return ("expected_exhausted_error", f"expected RetryExhaustedError, got {obj!r}")
        if obj.attempts != info["nops"]:
            return ("exhausted:attempts", f"attempts={obj.attempts}, operation invoked {info['nops']} times")
        if obj.last_class is not fin["klass"]:
            return ("exhausted:last_class", f"last_class={obj.last_class}, final failure was {fin['klass']}")
        if fin["kind"] == "res":
            sym.cover("none_result_is_failure", fin["obj"] is None)
            if obj.last_result is not fin["obj"] or obj.last_exception is not None:
                return ("exhausted:last_result", f"last_result={obj.last_result!r} last_exception={obj.last_exception!r}; "
                                                 f"final attempt returned {fin['obj']!r}")
        else:
            if obj.last_exception is not fin["obj"] or obj.last_result is not None:
                return ("exhausted:last_exception", f"last_exception={obj.last_exception!r} last_result={obj.last_result!r}; "
                                                    f"final attempt raised {fin['obj']!r}")
        if info["deferred"]:
            if obj.stop_reason is not StopReason.SCHEDULED:
                return ("exhausted:stop_reason", f"deferred run reports {obj.stop_reason}")
            if obj.next_sleep_s is None or obj.next_sleep_s != info["delay"]:
                return ("exhausted:next_sleep_s", f"next_sleep_s={obj.next_sleep_s}, handler was given {info['delay']}")
            sym.cover("scheduled_exc" if fin["kind"] == "exc" else "scheduled_res")
        else:
            if obj.stop_reason in (StopReason.SCHEDULED, StopReason.ABORTED) or obj.stop_reason is None:
                return ("exhausted:stop_reason", f"result exhaustion reports {obj.stop_reason}")
            if obj.next_sleep_s is not None:
                return ("exhausted:next_sleep_s", f"next_sleep_s={obj.next_sleep_s} on a run that was not deferred")
            sym.cover("exhausted_on_result")
        return None
    # exception-caused stop: the very exception object of the last attempt, original traceback
    if obj is not fin["obj"]:
        return ("wrong_exception", f"raised {obj!r}, last attempt raised {fin['obj']!r}")
    if len(info["segs"]) >= 2 and w.objs[info["segs"][-2][0][1]][1] is obj:
        sym.cover("same_exception_instance_twice")
    if innermost_frame_name(obj) != "_op_body":
        return ("traceback", f"innermost traceback frame is {innermost_frame_name(obj)}, not the operation")
    sym.cover("raise_last_exception")
    return None


def jobs(tier):
    q = tier == "quick"
    out = []
    allk = ["ok", "exc", "res", "resnone", "exc_same"]
    wall = 600 if q else 2400
    for entry in ENTRIES:
        for o1 in range(4):  # (exc_same needs a preceding exc, so it is never pinned as the first outcome)
            out.append(dict(name=f"run:{entry}:o1={o1}", harness="rv.props.c04:h_run",
                            params=dict(entry=entry, N=3, kinds=allk,
                                        classes=["TRANSIENT", "PERMANENT"] + ([] if q else ["UNKNOWN"]),
                                        limits=["TRANSIENT"], cap=None if q else "sym", handler=True, budget="sym",
                                        pin={"o1": o1}),
                            max_wall_s=wall, weight=2 if o1 else 1))
        if not q:  # one more attempt with the basic alphabet
            for o1 in (1, 2):
                out.append(dict(name=f"deep:{entry}:o1={o1}", harness="rv.props.c04:h_run",
                                params=dict(entry=entry, N=4, kinds=["ok", "exc", "res"], classes=["TRANSIENT", "PERMANENT"],
                                            limits=["TRANSIENT"], handler=True, budget=1, pin={"o1": o1}),
                                max_wall_s=wall, weight=4))
    return out
