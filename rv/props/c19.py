"""C19 Built-in classifiers are total and follow the documented table and precedence."""
import itertools

from rv import engine  # noqa: F401
from redress import (ConcurrencyError, ErrorClass, PermanentError, RateLimitError, ServerError, default_classifier,
                     http_classifier, pyodbc_classifier, sqlstate_classifier, strict_classifier)
import redress.extras.aiohttp as x_aiohttp
import redress.extras.boto3 as x_boto3
import redress.extras.grpc as x_grpc
import redress.extras.redis as x_redis
import redress.extras.urllib3 as x_urllib3

EC = ErrorClass
META = dict(
    level="model_checking",
    bounds=dict(
        quick="default/strict/http/sqlstate/pyodbc classifiers on exception objects built from solver choices: base type in "
              "{plain Exception, PermanentError, RateLimitError, ConcurrencyError, ServerError, TimeoutError, "
              "ConnectionError, OSError}; class name = any subset of the 7 heuristic keywords (128 pre-created classes); "
              "each of status / status_code / code absent or one of {None, True, False, solver int (UNBOUNDED for "
              "default/strict; for http_classifier, whose set-membership test hashes the value, every integer of "
              "[395, 605] (args: [95, 605]) plus far-away representatives incl. +-10**400), solver real, NaN, inf, '401', 'x', b'401', [401], {'status': 401}, (401,), object()}; args of 0-2 such values; sqlstate "
              "attribute/args text from templates, the code sitting in the first, second or third argument (7 class prefixes x 7 suffixes x 6 wrappers incl. brackets, word "
              "boundaries, lower case, two codes); the five optional-library classifiers with import_module stubbed to "
              "raise ImportError",
        thorough="same, plus all value kinds on all three attributes at once",
    ),
    assumptions=["precedence (marker > numeric > name) is asserted for default_classifier/strict_classifier, whose docs state "
                 "it; for http_classifier an integer status decides (its documented purpose), otherwise it must equal "
                 "default_classifier",
                 "exceptions inheriting from two marker types, and TimeoutError subclasses carrying a numeric code, are "
                 "outside the table (only totality is asserted there)",
                 "`err.status or err.code` is read literally: a falsy status defers to code",
                 "SQLSTATE text is drawn from templates, not from free symbolic strings"],
    outside=["optional libraries installed", "attributes implemented as raising properties", "free-form symbolic strings"],
)
GOALS = ["marker_wins_over_status", "status_wins_over_name", "name_heuristic", "strict_ignores_name", "huge_int", "bool_status",
         "nan_status", "http_args_status", "http_falls_back_to_default", "sqlstate_attr", "sqlstate_from_args", "pyodbc_bracket",
         "optional_equals_default", "status_5xx_boundary", "sqlstate_in_later_arg"]
KEYWORDS = ["auth", "unauthoriz", "credential", "forbid", "permission", "timeout", "connection"]
BASES = {"plain": Exception, "permanent": PermanentError, "ratelimit": RateLimitError, "concurrency": ConcurrencyError,
         "server": ServerError, "timeout": TimeoutError, "connection": ConnectionError, "oserror": OSError}
MARKER = {"permanent": EC.PERMANENT, "ratelimit": EC.RATE_LIMIT, "concurrency": EC.CONCURRENCY, "server": EC.SERVER_ERROR}
# classes are created at import time (types created under the tracer get CrossHair's module name)
TYPES = {}
for _b, _bt in BASES.items():
    for _mask in range(128):
        _name = "".join(k.capitalize() for i, k in enumerate(KEYWORDS) if _mask >> i & 1) or "Boom"
        TYPES[(_b, _mask)] = type(_name + "X", (_bt,), {"__module__": __name__})

HTTP_TABLE = {401: EC.AUTH, 403: EC.PERMISSION, 409: EC.CONCURRENCY, 429: EC.RATE_LIMIT, 408: EC.TRANSIENT, 400: EC.PERMANENT,
              404: EC.PERMANENT}
DEFAULT_TABLE = dict(HTTP_TABLE)
DEFAULT_TABLE[422] = EC.PERMANENT
VALUE_KINDS = ["absent", "none", "true", "false", "int", "real", "nan", "inf", "str401", "strx", "bytes", "list", "dict",
               "tuple", "object"]


INT_RANGE = [None]


def value(sym, name, kinds=VALUE_KINDS, symbolic=True):
    """symbolic=False: ints/reals are drawn from a few concrete representatives (used for the attributes that
    are not the subject of the job, so that only one unbounded integer is symbolic per path)."""
    k = sym.choice(name + "_kind", kinds)
    if k == "int":
        if symbolic and INT_RANGE[0] is not None:
            # http_classifier tests `status in {401, 403}`: hashing realises the integer, so an unbounded symbolic int
            # would be enumerated value by value for ever; use a solver-enumerated range covering every table boundary
            # plus concrete far-away representatives
            if sym.bool(name + "_far"):
                return k, sym.choice(name + "_c", [-1, 0, 99, 10 ** 400, -10 ** 400, 2 ** 63, 1000])
            return k, sym.int(name, INT_RANGE[0][0], INT_RANGE[0][1])
        return k, (sym.int(name) if symbolic else sym.choice(name + "_c", [401, 503, 7, 10 ** 400, -1]))
    if k == "real":
        return k, (sym.real(name) if symbolic else 503.0)
    return k, {"absent": None, "none": None, "true": True, "false": False, "nan": float("nan"), "inf": float("inf"),
               "str401": "401", "strx": "x", "bytes": b"401", "list": [401], "dict": {"status": 401}, "tuple": (401,),
               "object": object()}[k]


def table_lookup(code, table):
    r = table.get(code) if isinstance(code, int) and not hasattr(code, "var") else None
    if r is not None:
        return r
    for c, kl in table.items():
        if code == c:
            return kl
    if 500 <= code < 600:
        return EC.SERVER_ERROR
    return None


def name_class(mask, base):
    name = TYPES[(base, mask)].__name__.lower()
    if "auth" in name or "unauthoriz" in name or "credential" in name:
        return EC.AUTH
    if "forbid" in name or "permission" in name:
        return EC.PERMISSION
    if "timeout" in name or "connection" in name:
        return EC.TRANSIENT
    return EC.UNKNOWN


def build(sym, params, attrs):
    base = params["base"]
    mask = 0
    if params.get("names"):
        for i, k in enumerate(KEYWORDS):
            if sym.bool("name_" + k):
                mask |= 1 << i
    nargs = sym.choice("nargs", params.get("nargs", [0, 1, 2])) if params.get("args") else 0
    args = []
    akinds = []
    for j in range(nargs):
        k, v = value(sym, f"arg{j}", ["none", "true", "int", "strx"], symbolic=(params.get("primary") == "args" and j == 0))
        args.append(v)
        akinds.append(k)
    exc = TYPES[(base, mask)](*args)
    kinds = {}
    for a in ("status", "status_code", "code"):
        if a in attrs:
            k, v = value(sym, a, params.get("kinds_" + a, params.get("kinds", VALUE_KINDS)),
                         symbolic=params.get("primary", "status") == a)
            kinds[a] = (k, v)
            if k != "absent":
                setattr(exc, a, v)
    return exc, base, mask, kinds, akinds, args


def truthy(k, v):
    if k in ("absent", "none", "false"):
        return False
    if k in ("int", "real"):
        return v != 0
    return True


def h_default(sym, params):
    exc, base, mask, kinds, _ak, _args = build(sym, params, ("status", "code"))
    out = {}
    for nm, fn in (("default", default_classifier), ("strict", strict_classifier)):
        try:
            out[nm] = fn(exc)
        except Exception as e:  # noqa
            return (f"raises:{nm}:{type(e).__name__}", f"{nm}_classifier raised {e!r} for {type(exc).__name__} with {kinds}")
        if not isinstance(out[nm], ErrorClass):
            return (f"not_errorclass:{nm}", f"{nm}_classifier returned {out[nm]!r}")
    if base == "timeout":
        return None
    if base in MARKER:
        for nm in out:
            if out[nm] is not MARKER[base]:
                return ("marker_precedence", f"{nm}_classifier({type(exc).__name__} <- {base}) = {out[nm]} despite the marker type; attrs {kinds}")
        sym.cover("marker_wins_over_status", kinds["status"][0] == "int")
        return None
    sk, sv = kinds["status"]
    ck, cv = kinds["code"]
    k, v = (sk, sv) if truthy(sk, sv) else (ck, cv)
    numeric = None
    if k in ("int", "true", "false"):
        numeric = table_lookup(v, DEFAULT_TABLE)
        if k == "int":
            sym.cover("huge_int", v > 10 ** 30)
            sym.cover("status_5xx_boundary", v == 599)
        else:
            sym.cover("bool_status")
    if k == "nan":
        sym.cover("nan_status")
    if numeric is not None:
        for nm in out:
            if out[nm] is not numeric:
                return ("status_table", f"{nm}_classifier: status/code {v} must map to {numeric}, got {out[nm]}")
        sym.cover("status_wins_over_name", mask != 0)
        return None
    byname = name_class(mask, base)
    if out["default"] is not byname:
        return ("name_heuristic", f"default_classifier({type(exc).__name__}) = {out['default']}, expected {byname} (attrs {kinds})")
    if out["strict"] is not EC.UNKNOWN:
        return ("strict_uses_name", f"strict_classifier({type(exc).__name__}) = {out['strict']} (no marker, no numeric code)")
    sym.cover("name_heuristic", byname is not EC.UNKNOWN)
    sym.cover("strict_ignores_name", byname is not EC.UNKNOWN)
    return None


def h_http(sym, params):
    INT_RANGE[0] = params.get("int_range", (395, 605))
    try:
        exc, base, mask, kinds, akinds, args = build(sym, params, ("status", "status_code", "code"))
    finally:
        INT_RANGE[0] = None
    try:
        r = http_classifier(exc)
    except Exception as e:  # noqa
        return (f"raises:http:{type(e).__name__}", f"http_classifier raised {e!r} for attrs {kinds} args {args}")
    if not isinstance(r, ErrorClass):
        return ("not_errorclass:http", f"http_classifier returned {r!r}")
    status = None
    for a in ("status", "status_code", "code"):
        k, v = kinds[a]
        if k in ("int", "true", "false"):
            status = v
            break
    if status is None:
        for k, v in zip(akinds, args):
            if k in ("int", "true", "false") and 100 <= v <= 599:
                status = v
                sym.cover("http_args_status")
                break
    if status is None:
        d = default_classifier(exc)
        if r is not d:
            return ("http_fallback", f"no integer status: http_classifier = {r}, default_classifier = {d}")
        sym.cover("http_falls_back_to_default")
        return None
    exp = table_lookup(status, HTTP_TABLE) or EC.UNKNOWN
    if r is not exp:
        return ("http_table", f"http status {status} must map to {exp}, got {r}")
    return None


PREFIXES = ["40", "08", "28", "42", "HY", "00", "4a"]
SUFFIXES = ["001", "P01", "T00", "T01", "S01", "000", "0a1"]
WRAPS = ["{c}", "[{c}]", "x{c}", "ERROR [{c}] failed", "({c}) [08S01]", " {c} "]


def sql_expect(code):
    if code in ("40001", "40P01"):
        return EC.CONCURRENCY
    if code in ("HYT00", "HYT01", "08S01") or code.startswith("08"):
        return EC.TRANSIENT
    if code.startswith("28"):
        return EC.AUTH
    if code in ("42000", "42P01"):
        return EC.PERMANENT
    return EC.UNKNOWN


def _sql_oracle(strings, code):
    """first SQLSTATE-looking token in the exception's string args, in order (what the docs call 'extracted from args')"""
    import re
    m = m2 = None
    for t in strings:
        m = m or re.search(r"\b([0-9A-Z]{5})\b", t)
        m2 = m2 or re.search(r"\[([0-9A-Z]{5})\]", t)
    return (m.group(1) if m else None, m2.group(1) if m2 else None, re.fullmatch(r"[0-9A-Z]{5}", code) is not None)


def h_sql(sym, params):
    where = sym.choice("where", ["attr", "args", "none", "attr_nonstr"])
    base = params["base"]
    code, text = "00000", "no code here"
    if where in ("attr", "args"):
        code = sym.choice("prefix", PREFIXES) + sym.choice("suffix", SUFFIXES)
    if where == "args":
        text = sym.choice("wrap", WRAPS).format(c=code)
    layout = sym.choice("args_layout", ["first", "second", "third"]) if where == "args" else "none"
    args = {"first": [text, 7], "second": ["Communication link failure", text], "third": [7, "no code", text], "none": [7]}[layout]
    exc = TYPES[(base, 0)](*args)
    if where == "attr":
        exc.sqlstate = code
    elif where == "attr_nonstr":
        k, v = value(sym, "sqlstate", [x for x in VALUE_KINDS if x not in ("absent",)], symbolic=False)
        exc.sqlstate = v
    res = {}
    for nm, fn in (("sqlstate", sqlstate_classifier), ("pyodbc", pyodbc_classifier)):
        try:
            res[nm] = fn(exc)
        except Exception as e:  # noqa
            return (f"raises:{nm}:{type(e).__name__}", f"{nm}_classifier raised {e!r} (where={where}, text={text!r})")
        if not isinstance(res[nm], ErrorClass):
            return (f"not_errorclass:{nm}", f"{nm}_classifier returned {res[nm]!r}")
    if where == "attr":
        for nm in res:
            if res[nm] is not sql_expect(code):
                return ("sqlstate_table", f"{nm}_classifier(sqlstate={code!r}) = {res[nm]}, documented {sql_expect(code)}")
        sym.cover("sqlstate_attr")
    elif where == "args":
        # (OSError-derived types keep only two of three constructor arguments in .args: go by what .args really holds)
        m, m2, valid = engine.untraced(_sql_oracle, [a for a in exc.args if isinstance(a, str)], code)
        exp = sql_expect(m) if m else default_classifier(exc)
        if res["sqlstate"] is not exp:
            return ("sqlstate_args", f"sqlstate_classifier(args={text!r}) = {res['sqlstate']}, expected {exp}")
        exp2 = sql_expect(m2) if m2 else EC.UNKNOWN
        if res["pyodbc"] is not exp2:
            return ("pyodbc_args", f"pyodbc_classifier(args={text!r}) = {res['pyodbc']}, expected {exp2}")
        sym.cover("sqlstate_from_args", m is not None and valid)
        sym.cover("sqlstate_in_later_arg", layout != "first" and m is not None)
        sym.cover("pyodbc_bracket", m2 is not None)
    elif where == "none":
        if res["sqlstate"] is not default_classifier(exc):
            return ("sqlstate_fallback", "no SQLSTATE anywhere: sqlstate_classifier must equal default_classifier")
    return None


class _NoImport:
    @staticmethod
    def import_module(name, *a, **kw):
        raise ImportError(name)


def h_optional(sym, params):
    exc, base, mask, kinds, _ak, _args = build(sym, params, ("status", "code"))
    mods = {"aiohttp": x_aiohttp, "grpc": x_grpc, "boto3": x_boto3, "redis": x_redis, "urllib3": x_urllib3}
    d = default_classifier(exc)
    for nm, mod in mods.items():
        fn = getattr(mod, nm + "_classifier")
        old = mod.importlib
        mod.importlib = _NoImport
        try:
            r = fn(exc)
        except Exception as e:  # noqa
            return (f"raises:{nm}:{type(e).__name__}", f"{nm}_classifier raised {e!r} with the library absent")
        finally:
            mod.importlib = old
        if r is not d:
            return (f"optional_differs:{nm}", f"{nm}_classifier = {r}, default_classifier = {d} (library absent, attrs {kinds})")
    sym.cover("optional_equals_default")
    return None


def jobs(tier):
    q = tier == "quick"
    wall = 600 if q else 3000
    out = []
    small = ["absent", "none", "int"]
    mid = ["absent", "none", "true", "int", "real", "nan", "strx", "list"]
    for base in BASES:
        # all value kinds on status x code (no name heuristics involved: mask 0)
        out.append(dict(name=f"default:{base}:values", harness="rv.props.c19:h_default",
                        params=dict(base=base, kinds_code=VALUE_KINDS if not q else mid), max_wall_s=wall, weight=2))
        out.append(dict(name=f"optional:{base}", harness="rv.props.c19:h_optional",
                        params=dict(base=base, kinds=small), max_wall_s=wall, weight=1))
    # all 128 keyword subsets in the class name x {no status, integer status}
    for base in ("plain", "permanent", "connection"):
        out.append(dict(name=f"default:{base}:names", harness="rv.props.c19:h_default",
                        params=dict(base=base, names=True, kinds_status=["absent", "int"], kinds_code=["absent"]),
                        max_wall_s=wall, weight=4))
    none_ = ["absent"]
    for base in ("plain", "permanent", "timeout", "connection"):
        for a in (("status", "status_code", "code") if base == "plain" else ("status_code",)):
            # the attribute under study takes every value kind; the others are absent
            p = dict(base=base, args=True, nargs=[0, 1], kinds_status=none_, kinds_status_code=none_, kinds_code=none_, primary=a)
            p["kinds_" + a] = VALUE_KINDS
            if base != "plain":
                p["int_range"] = (395, 431)
            out.append(dict(name=f"http:{base}:{a}", harness="rv.props.c19:h_http", params=p, max_wall_s=wall, weight=3))
        out.append(dict(name=f"sql:{base}", harness="rv.props.c19:h_sql", params=dict(base=base), max_wall_s=wall, weight=2))
    # which attribute wins: each of the three absent / None / a concrete integer
    out.append(dict(name="http:plain:precedence", harness="rv.props.c19:h_http",
                    params=dict(base="plain", kinds=["absent", "none", "int"], primary="none"), max_wall_s=wall, weight=2))
    # status taken from args (100..599 only): first argument an unbounded symbolic integer
    out.append(dict(name="http:plain:args", harness="rv.props.c19:h_http",
                    params=dict(base="plain", args=True, nargs=[1], kinds_status=["absent", "none"],
                                kinds_status_code=["absent"], kinds_code=["absent"], primary="args", int_range=(95, 605)),
                    max_wall_s=wall, weight=2))
    out.append(dict(name="http:plain:args2", harness="rv.props.c19:h_http",
                    params=dict(base="plain", args=True, nargs=[2], kinds_status=["absent"], kinds_status_code=["absent", "strx"],
                                kinds_code=["absent"], primary="none"), max_wall_s=wall, weight=1))
    out.append(dict(name="optional:plain:names", harness="rv.props.c19:h_optional",
                    params=dict(base="plain", names=True, kinds=["absent"]), max_wall_s=wall, weight=3))
    return out
