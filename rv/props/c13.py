"""C13 Abort and cancellation stop work immediately and are never retried."""
import asyncio

from rv.world import World, summarize, BASE_KINDS
from redress import AbortRetryError, StopReason, RetryOutcome

META = dict(
    level="model_checking",
    bounds=dict(
        quick="whole runs, sync and async, call and execute (Retry/AsyncRetry + Policy sugar): N=3 scripted attempts over "
              "success, TRANSIENT exception/result, AbortRetryError, CancelledError, KeyboardInterrupt, SystemExit; every "
              "abort_if answer a solver boolean; the sleeper raises a cancellation-type exception at a solver-chosen "
              "sleep; async: CancelledError thrown into the coroutine at a solver-chosen suspension point "
              "(before/after each operation body, inside each awaitable before_sleep hook, inside each sleep)",
        thorough="N=4",
    ),
    assumptions=["frozen clock, zero strategy, max_attempts = N+1 (caps are C01's subject)",
                 "async runs are driven by the trampoline: suspension points are the awaits of the operation and the "
                 "sleeper (one before and one after the operation body, one per sleep)"],
    outside=["attempt_timeout_s (asyncio.wait_for / ThreadPoolExecutor)", "GeneratorExit (C08 covers it for the breaker)"],
)
GOALS = ["abort_first_poll", "abort_later_poll", "abort_by_op", "cancel_by_op", "cancel_in_sleep", "cancel_at_await",
         "poll_before_every_attempt", "poll_before_sleep"]
CANCEL = {"cancelled": asyncio.CancelledError, "kbd": KeyboardInterrupt, "sysexit": SystemExit}


def h_run(sym, params):
    w = World(sym, params)
    sf = sym.choice("sleep_fault", ["none", "cancelled", "kbd", "sysexit"])
    if sf != "none":
        w.fault = dict(site="sleeper", exc=CANCEL[sf], at=sym.choice("sleep_fault_at", [1, 2]))
    inj = {}
    inject = None
    if params["entry"].startswith("a"):
        K = sym.int("cancel_at", 0, params.get("maxk", 8))

        def inject(k):
            if k == K:
                inj["obj"] = asyncio.CancelledError()
                w.t(("inject", k))
                return inj["obj"]
            return None
    w.run(params["entry"], inject=inject)
    return check_abort(w, w.trace, w.result, sym, inj)


WORK = ("op", "classify", "rclassify", "strategy", "sleep", "consume", "handler", "before_sleep")


def check_abort(w, trace, result, sym, inj):
    kind, out = result
    # 1. polls are placed before every attempt and before every sleep
    need_poll = True  # at begin
    polled = False
    decided_since_poll = False  # classification / strategy / budget work happened after the last poll
    for ev in trace:
        k = ev[0]
        if k == "poll":
            polled = True
            decided_since_poll = False
        elif k in ("strategy", "consume"):
            decided_since_poll = True
        elif k == "op":
            if not polled:
                return ("no_poll_before_attempt", f"attempt {ev[1]} started without consulting abort_if since the previous action")
            polled = False
            if ev[1] > 1:
                sym.cover("poll_before_every_attempt")
        elif k == "op_end":
            polled = False
        elif k == "sleep":
            if not polled:
                return ("no_poll_before_sleep", "backoff sleep started without consulting abort_if after the failure")
            if decided_since_poll:
                return ("stale_poll_before_sleep", "the retry decision (strategy / budget) was taken after the last abort_if poll and "
                                                   "the backoff sleep started without consulting abort_if again")
            polled = False
            sym.cover("poll_before_sleep")
    # 2. nothing after the stop signal
    stop_idx = None
    stop_kind = None
    cancel_obj = None
    for idx, ev in enumerate(trace):
        k = ev[0]
        if k == "poll" and ev[2]:
            stop_idx, stop_kind = idx, "abort"
            sym.cover("abort_first_poll" if ev[1] == 1 else "abort_later_poll")
            break
        if k == "inject":
            stop_idx, stop_kind, cancel_obj = idx, "cancel", inj["obj"]
            sym.cover("cancel_at_await")
            break
        if k == "sleeper_raises":
            stop_idx, stop_kind, cancel_obj = idx, "cancel", w.fault["obj"]
            sym.cover("cancel_in_sleep")
            break
        if k == "op_end":
            okind, oobj, _ = w.objs.get(ev[1], (None, None, None))
            # objs is filled right after op_end; look it up at the end instead
    if stop_idx is None:
        # op-raised stop signals
        for idx, ev in enumerate(trace):
            if ev[0] == "op_end":
                okind, oobj, _ = w.objs[ev[1]]
                if okind == "abort_exc":
                    stop_idx, stop_kind = idx, "abort"
                    sym.cover("abort_by_op")
                    break
                if okind in CANCEL:
                    stop_idx, stop_kind, cancel_obj = idx, "cancel", oobj
                    sym.cover("cancel_by_op")
                    break
    else:
        # an op-raised signal may come earlier than the one found above
        for idx, ev in enumerate(trace[:stop_idx]):
            if ev[0] == "op_end":
                okind, oobj, _ = w.objs[ev[1]]
                if okind == "abort_exc":
                    stop_idx, stop_kind, cancel_obj = idx, "abort", None
                    break
                if okind in CANCEL:
                    stop_idx, stop_kind, cancel_obj = idx, "cancel", oobj
                    break
    if stop_idx is None:
        return None
    for ev in trace[stop_idx + 1:]:
        if ev[0] in WORK:
            return (f"work_after_{stop_kind}", f"{ev[0]} happened after the run was {'aborted' if stop_kind == 'abort' else 'cancelled'}")
    if stop_kind == "cancel":
        if kind != "raise" or out is not cancel_obj:
            return ("cancel_not_propagated", f"cancellation-type exception did not leave unchanged: {kind} {out!r}")
    else:
        if kind == "raise":
            if not isinstance(out, AbortRetryError):
                return ("abort_result", f"aborted run raised {out!r}")
        elif kind == "outcome":
            if out.ok or out.stop_reason is not StopReason.ABORTED:
                return ("abort_result", f"aborted run returned ok={out.ok} stop_reason={out.stop_reason}")
        else:
            return ("abort_result", f"aborted run returned {out!r}")
    return None


def jobs(tier):
    q = tier == "quick"
    N = 3 if q else 4
    out = []
    kinds = ["ok", "exc", "res", "abort_exc", "cancelled", "kbd", "sysexit"]
    entries = ["retry.call", "retry.execute", "aretry.call", "aretry.execute", "policy.execute", "apolicy.call"]
    if not q:
        entries += ["policy.call", "apolicy.execute", "rp.call", "arp.execute"]
    for entry in entries:
        for o1 in range(len(kinds)):
            out.append(dict(name=f"run:{entry}:o1={kinds[o1]}", harness="rv.props.c13:h_run",
                            params=dict(entry=entry, N=N, kinds=kinds, classes=["TRANSIENT"], max_attempts=N + 1,
                                        abort=True, hooks=False, pin={"o1": o1}, maxk=4 * N + 2,
                                        before_sleep=entry.startswith("a"), async_before_sleep=True),
                            max_wall_s=600 if q else 3000, weight=3 if o1 in (1, 2) else 1))
    return out
