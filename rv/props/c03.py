"""C03 Retry exactly when permitted: no premature give-up, no wasted backoff."""
from rv.world import EC, NONRETRY, World, segments
from redress import SleepDecision, StopReason, AbortRetryError, RetryExhaustedError

META = dict(
    level="model_checking",
    bounds=dict(
        quick="whole runs through Retry/AsyncRetry call+execute: (a) caps x classes {TRANSIENT,UNKNOWN,PERMANENT} x "
              "{exception,result} x strategy-table presence x budget tokens, frozen clock, N=2; (b) symbolic timings x "
              "deadline x max_attempts x budget, N=3; (c) abort_if answers x sleep-handler decisions x budget x "
              "max_attempts, N=3, handler/sleeper given per call and (N=2) at policy level; step harness: one failure pushed through _RetryState._handle_failure + "
              "_sync_failure_outcome + determine_action_from_outcome from an ARBITRARY state (all 8 classes, both "
              "causes, attempt/counters/limits/cap unbounded ints, real timings, budget fill, poll answers, handler "
              "decision, sleeper overshoot)",
        thorough="(a) N=3, (b) N=4, (c) N=4, caps x strategy presence x budget x abort x handler at once at N=2, step harness unchanged (unbounded)",
    ),
    assumptions=[
        "time advances only inside the operation and the sleeper; TD linear timedelta stub; floats as reals",
        "'at that moment' for the deadline = the instant the failed attempt ended (elapsed < deadline_s permits a retry; "
        "elapsed == deadline_s does not, as C02 states)",
        "a budget refusal is taken from Budget.consume()'s answer (C10 decides whether refusals are justified)",
        "the step harness builds _RetryState directly (internal API of the current tree)",
    ],
    outside=["attempt_timeout_s", "callbacks that take time", "more than N scripted failures per whole run"],
)
GOALS = ["np:retry_granted", "stop:budget", "stop:deadline_at_failure", "stop:deadline_after_sleep", "stop:abort_poll",
         "stop:handler_defer", "stop:handler_abort", "stop:no_strategy", "stop:global_cap", "stop:per_class",
         "stop:unknown_cap", "stop:nonretry", "success_ends_run", "step:retry", "step:stop"]
CORE = ["retry.call", "retry.execute", "aretry.call", "aretry.execute"]


def delivered_stop_reason(w, result, trace):
    kind, obj = result
    if kind == "outcome":
        return obj.stop_reason
    if kind == "raise":
        if isinstance(obj, AbortRetryError):
            return StopReason.ABORTED
        if isinstance(obj, RetryExhaustedError):
            return obj.stop_reason
        # original exception re-raised: the reason is only visible in the terminal event
        for ev in reversed(trace):
            if ev[0] == "metric" and "stop_reason" in ev[4]:
                return StopReason(ev[4]["stop_reason"])
    return None


def check_run(w, trace, result, sym):
    D = w.deadline
    t0 = next(e[2] for e in trace if e[0] == "begin")
    t_end = next(e[1] for e in trace if e[0] == "end")
    prelude, segs = segments(trace)
    cnt = {}
    unk = 0
    poll_true_seen = any(e[0] == "poll" and e[2] for e in prelude)
    if poll_true_seen and segs:
        return ("op_after_abort", "operation invoked although abort_if answered True before the first attempt")
    for idx, (op, evs) in enumerate(segs):
        i = op[1]
        kind, _obj, klass = w.objs[i]
        followed = idx + 1 < len(segs)
        if kind == "ok":
            for e in evs:
                if e[0] in ("strategy", "consume", "sleep", "handler") or (e[0] == "metric" and e[1] == "retry"):
                    return ("after_success", f"{e[0]} after the successful attempt {i}")
            if followed:
                return ("after_success", f"operation invoked again after successful attempt {i}")
            sym.cover("success_ends_run")
            continue
        t_fail = next(e[2] for e in evs if e[0] == "op_end")
        elapsed = t_fail - t0
        c = cnt.get(klass, 0) + 1
        cnt[klass] = c
        if klass is EC.UNKNOWN:
            unk += 1
        lim = w.limits.get(klass)
        has_strat = klass in w.strat_table or w.default_strategy is not None
        holds = set()
        if i >= w.max_attempts:
            holds.add(StopReason.MAX_ATTEMPTS_GLOBAL)
        if lim is not None and c > lim:
            holds.add(StopReason.MAX_ATTEMPTS_PER_CLASS)
        if klass is EC.UNKNOWN and w.cap is not None and unk > w.cap:
            holds.add(StopReason.MAX_UNKNOWN_ATTEMPTS)
        if klass in NONRETRY:
            holds.add(StopReason.NON_RETRYABLE_CLASS)
        if not has_strat:
            holds.add(StopReason.NO_STRATEGY)
        deadline_at_failure = bool(elapsed >= D)
        if deadline_at_failure:
            holds.add(StopReason.DEADLINE_EXCEEDED)
        w_pre = not holds  # a retry is permitted by class / strategy / caps / deadline
        token_refused = False
        token_asked = False
        poll_true = False
        handler_dec = None
        slept = False
        for e in evs:
            k = e[0]
            if k == "poll":
                if e[2]:
                    poll_true = True
            elif k == "consume":
                token_asked = True
                if not w_pre:
                    return ("nw:consume_after_last_attempt",
                            f"budget token requested after attempt {i} although no retry was permitted ({sorted(r.value for r in holds)})")
                if not e[1]:
                    token_refused = True
            elif k == "metric" and e[1] == "retry":
                if not w_pre or token_refused:
                    return ("nw:retry_event", f"`retry` reported after attempt {i} although no retry was permitted")
            elif k == "handler":
                handler_dec = e[3]
                if not w_pre or token_refused or poll_true:
                    return ("nw:handler", f"sleep handler consulted after attempt {i} although no retry was permitted")
            elif k == "sleep":
                slept = True
                if handler_dec is None and (w.has_handler or (w.place and (w.place["h_pol"] or w.place["h_call"]))):
                    return ("nw:handler_not_consulted", f"slept after attempt {i} without consulting the configured sleep handler")
                if not w_pre or token_refused or poll_true or handler_dec not in (None, SleepDecision.SLEEP):
                    return ("nw:sleep", f"slept after attempt {i} although no retry was permitted / handler={handler_dec}")
        if w.tokens is not None and w_pre and not token_asked and not poll_true:
            return ("np:no_token_requested", f"retry permitted after attempt {i} but the budget was never asked")
        if token_refused:
            holds.add(StopReason.BUDGET_EXHAUSTED)
        if poll_true or handler_dec is SleepDecision.ABORT:
            holds.add(StopReason.ABORTED)
        if handler_dec is SleepDecision.DEFER:
            holds.add(StopReason.SCHEDULED)
        t_next = segs[idx + 1][0][2] if followed else t_end
        post_sleep_over = bool(slept and (t_next - t0 > D))
        if post_sleep_over:
            holds.add(StopReason.DEADLINE_EXCEEDED)
        if followed:
            if holds:
                return ("retried_when_not_permitted",
                        f"attempt {i + 1} invoked although stop condition(s) {sorted(r.value for r in holds)} held after attempt {i}")
            sym.cover("np:retry_granted")
        else:
            if not holds:
                return ("np:premature_give_up", f"run stopped after attempt {i} although a retry was permitted")
            sr = delivered_stop_reason(w, result, trace)
            if sr not in holds:
                return ("sr:wrong_stop_reason",
                        f"delivered stop reason {sr} does not hold; holding: {sorted(r.value for r in holds)}")
            sym.cover({StopReason.BUDGET_EXHAUSTED: "stop:budget", StopReason.NO_STRATEGY: "stop:no_strategy",
                       StopReason.MAX_ATTEMPTS_GLOBAL: "stop:global_cap", StopReason.MAX_ATTEMPTS_PER_CLASS: "stop:per_class",
                       StopReason.MAX_UNKNOWN_ATTEMPTS: "stop:unknown_cap", StopReason.NON_RETRYABLE_CLASS: "stop:nonretry",
                       StopReason.SCHEDULED: "stop:handler_defer"}.get(sr, "other"))
            if sr is StopReason.DEADLINE_EXCEEDED:
                sym.cover("stop:deadline_after_sleep" if post_sleep_over and not deadline_at_failure else "stop:deadline_at_failure")
            if sr is StopReason.ABORTED:
                sym.cover("stop:abort_poll" if poll_true else "stop:handler_abort")
    return None


def h_run(sym, params):
    w = World(sym, params)
    w.run(params["entry"])
    return check_run(w, w.trace, w.result, sym)


# ---------------------------------------------------------------- step harness (unbounded counters)

def h_step(sym, params):
    """One failure from an arbitrary retry state through the real decision pipeline."""
    from rv import env
    from redress import Retry, Budget, Classification
    from redress.policy.state import _RetryState
    from redress.policy.retry_helpers import _sync_failure_outcome
    from redress.policy.runner.logic import determine_action_from_outcome, ContinueAction
    from redress.policy.types import AttemptDecision

    classes = list(EC)
    k = classes[params["pin_k"]] if "pin_k" in params else sym.choice("k", classes)
    cause = sym.choice("cause", ["exception", "result"])
    BIG = 10 ** 9
    attempt = sym.int("attempt", 1, BIG)
    max_attempts = sym.int("max_attempts", 1, BIG)
    sym.assume(attempt <= max_attempts)
    c = sym.int("count", 0, BIG)
    u = sym.int("unk", 0, BIG)
    lim = sym.int("lim", -1, BIG)
    cap = sym.int("cap", -1, BIG)
    has_strat = sym.bool("has_strat")
    deadline = sym.real("deadline", lo=0)
    start = sym.real("start", lo=0)
    el = sym.real("elapsed", lo=0)
    raw = sym.real("raw")
    tokens = sym.int("tokens", -1, 2)
    clock = env.Clock(start)
    trace = []

    def strat(ctx):
        trace.append(("strategy",))
        return raw

    def sleeper(s):
        trace.append(("sleep", s))
        clock.now = clock.now + s + sym.real("ov", lo=0)

    polls = []

    def abort_if():
        a = sym.bool(f"poll{len(polls) + 1}")
        polls.append(a)
        return a

    hdec = []

    def handler(ctx, s):
        d = sym.choice("h", [SleepDecision.SLEEP, SleepDecision.DEFER, SleepDecision.ABORT])
        hdec.append(d)
        trace.append(("handler", s, d))
        return d

    has_handler = sym.bool("has_handler")
    has_abort = sym.bool("has_abort")
    events = []
    with env.patched(clock):
        budget = None
        if tokens >= 0:
            class B(Budget):
                def consume(self, cost=1):
                    ok = Budget.consume(self, cost)
                    trace.append(("consume", ok))
                    return ok
            budget = B(max_retries=tokens, window_s=10 ** 9)
        pol = Retry(classifier=lambda e: k, strategy=strat if has_strat else None,
                    strategies={} if has_strat else {EC.AUTH: strat},
                    max_attempts=max_attempts, max_unknown_attempts=None if cap < 0 else cap,
                    per_class_max_attempts={} if lim < 0 else {k: lim}, deadline_s=deadline, budget=budget)
        st = _RetryState(policy=pol, on_metric=lambda ev, a, s, t: events.append((ev, dict(t))), on_log=None,
                         operation=None, abort_if=abort_if if has_abort else None)
        st.per_class_counts[k] = c
        st.unknown_attempts = u
        clock.now = start + el
        exc = ValueError("x") if cause == "exception" else None
        res = object() if cause == "result" else None
        cl = Classification(klass=k)
        aborted_exc = False
        outcome = None
        try:
            # the exact sequence both runners perform for a failed attempt
            st.check_abort(attempt)
            d = st._handle_failure(classification=cl, attempt=attempt, cause=cause, exc=exc, result=res)
            if d.action != "raise":
                st.check_abort(attempt)
            outcome = _sync_failure_outcome(state=st, attempt=attempt, decision=d, classification=cl, exception=exc,
                                            result=res, cause=cause, sleep_fn=handler if has_handler else None,
                                            before_sleep=None, sleeper=sleeper)
            action = determine_action_from_outcome(outcome, st, attempt, for_result=(cause == "result"))
        except AbortRetryError:
            aborted_exc = True
            action = None
    cont = isinstance(action, ContinueAction)
    # reference, from the property statement
    holds = set()
    if attempt >= max_attempts:
        holds.add(StopReason.MAX_ATTEMPTS_GLOBAL)
    if lim >= 0 and c + 1 > lim:
        holds.add(StopReason.MAX_ATTEMPTS_PER_CLASS)
    if k is EC.UNKNOWN and cap >= 0 and u + 1 > cap:
        holds.add(StopReason.MAX_UNKNOWN_ATTEMPTS)
    if k in NONRETRY:
        holds.add(StopReason.NON_RETRYABLE_CLASS)
    if not (has_strat or k is EC.AUTH):
        holds.add(StopReason.NO_STRATEGY)
    if el >= deadline:
        holds.add(StopReason.DEADLINE_EXCEEDED)
    w_pre = not holds
    consumed = [e for e in trace if e[0] == "consume"]
    refused = any(not e[1] for e in consumed)
    if consumed and not w_pre:
        return ("nw:consume_after_last_attempt", f"token requested although {sorted(r.value for r in holds)} held")
    if any(ev == "retry" for ev, _ in events) and (not w_pre or refused):
        return ("nw:retry_event", "retry reported although not permitted")
    poll_true = any(polls)
    slept = [e for e in trace if e[0] == "sleep"]
    if slept and (not w_pre or refused or poll_true or (hdec and hdec[0] is not SleepDecision.SLEEP)):
        return ("nw:sleep", "slept although no retry was permitted")
    if slept:
        # C05/C02 in one step: delay = clamp(raw) capped at remaining
        exp = min(max(0, raw), deadline - el)
        if slept[0][1] != exp:
            return ("delay_value", f"slept {slept[0][1]}, expected {exp}")
    if refused:
        holds.add(StopReason.BUDGET_EXHAUSTED)
    if poll_true or (hdec and hdec[0] is SleepDecision.ABORT):
        holds.add(StopReason.ABORTED)
    if hdec and hdec[0] is SleepDecision.DEFER:
        holds.add(StopReason.SCHEDULED)
    if slept and clock.now - start > deadline:
        holds.add(StopReason.DEADLINE_EXCEEDED)
    if cont:
        if holds:
            return ("retried_when_not_permitted", f"continue although {sorted(r.value for r in holds)} held")
        if st.per_class_counts[k] != c + 1 or (k is EC.UNKNOWN and st.unknown_attempts != u + 1):
            return ("counter_update", "counters not advanced by exactly one")
        sym.cover("step:retry")
    else:
        if not holds:
            return ("np:premature_give_up", "stopped although a retry was permitted")
        sr = StopReason.ABORTED if aborted_exc else (outcome.stop_reason or st.last_stop_reason)
        if outcome is not None and outcome.decision is AttemptDecision.ABORTED:
            sr = StopReason.ABORTED
        if sr not in holds:
            return ("sr:wrong_stop_reason", f"stop reason {sr} does not hold; holding {sorted(r.value for r in holds)}")
        sym.cover("step:stop")
    return None


def jobs(tier):
    q = tier == "quick"
    out = []
    three = ["TRANSIENT", "UNKNOWN", "PERMANENT"]
    kinds = ["ok", "exc", "res"]
    wall = 600 if q else 3000
    # (a) caps x classes x causes x strategy presence x budget (split by the first outcome)
    N = 2 if q else 3
    for entry in CORE:
        for tk in ("none", "sym"):
            if q and tk == "sym" and entry in ("retry.execute", "aretry.call"):
                continue
            for o1 in range(3):
                out.append(dict(name=f"caps:{entry}:budget={tk}:o1={kinds[o1]}", harness="rv.props.c03:h_run",
                                params=dict(entry=entry, N=N, kinds=kinds, classes=three, limits=["TRANSIENT", "UNKNOWN"],
                                            cap="sym", strat=dict(table=["TRANSIENT"], default="sym"),
                                            budget=None if tk == "none" else "sym", pin={"o1": o1}),
                                max_wall_s=wall, weight=3 if o1 else 1))
    # (b) timings x deadline x max_attempts x budget
    N = 3 if q else 4
    for entry in CORE:
        for o1 in range(3):
            out.append(dict(name=f"timed:{entry}:o1={kinds[o1]}", harness="rv.props.c03:h_run",
                            params=dict(entry=entry, N=N, kinds=["ok", "exc", "res"], classes=["TRANSIENT"], timed=True,
                                        strat=dict(raw="real"), budget="sym", pin={"o1": o1}),
                            max_wall_s=wall, weight=3 if o1 else 1))
    # (c) abort polls x handler decisions x budget x max_attempts
    for entry in CORE:
        out.append(dict(name=f"ctl:{entry}", harness="rv.props.c03:h_run",
                        params=dict(entry=entry, N=N, kinds=["ok", "exc", "res"], classes=["TRANSIENT"], abort=True,
                                    handler=True, budget="sym"),
                        max_wall_s=wall, weight=3))
    # (c') the same with the handler and the sleeper configured at POLICY level (constructor), not per call
    for entry in CORE:
        out.append(dict(name=f"ctl-policy-level:{entry}", harness="rv.props.c03:h_run",
                        params=dict(entry=entry, N=2 if q else 3, kinds=["ok", "exc", "res"], classes=["TRANSIENT"], abort=True,
                                    budget="sym", place=True,
                                    pin_place={"h_pol": True, "h_call": False, "b_pol": False, "b_call": False, "s_pol": True,
                                               "s_call": False}),
                        max_wall_s=wall, weight=2))
    # (c'') every callback handed over as a falsy callable object (only None means "not given")
    for entry in CORE:
        out.append(dict(name=f"ctl-falsy:{entry}", harness="rv.props.c03:h_run",
                        params=dict(entry=entry, N=2, kinds=["ok", "exc", "res"], classes=["TRANSIENT"], abort=True, handler=True,
                                    budget="sym", falsy=True), max_wall_s=wall, weight=1))
    if not q:
        # everything at once except real-valued timings (those are in (b)), N=2, split by the first outcome
        for entry in CORE:
            for o1 in range(3):
                out.append(dict(name=f"all:{entry}:o1={kinds[o1]}", harness="rv.props.c03:h_run",
                                params=dict(entry=entry, N=2, kinds=kinds, classes=three, limits=["TRANSIENT", "UNKNOWN"],
                                            cap="sym", strat=dict(table=["TRANSIENT"], default="sym"),
                                            budget="sym", abort=True, handler=True, pin={"o1": o1}),
                                max_wall_s=wall, weight=5 if o1 else 1))
    # step harness, split by class
    for ki in range(8):
        out.append(dict(name=f"step:k={list(EC)[ki].name}", harness="rv.props.c03:h_step", params=dict(pin_k=ki),
                        max_wall_s=wall, weight=4))
    return out
