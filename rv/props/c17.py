"""C17 Budget and CircuitBreaker are atomic under concurrent threads."""
import itertools

from rv import threads
from rv.world import EC
from redress import CircuitBreaker, CircuitState, Budget

META = dict(
    level="model_checking",
    level_text="Bounded symbolic model checking of thread interleavings of the real code: circuit.py and budget.py are "
               "mechanically transformed (AST, regenerated from /repo's current source on every run) into line-preemptible "
               "generators; the scheduler's choice of which thread runs next, the initial component state and every clock "
               "reading are solver variables; every feasible schedule within the pre-emption bound is enumerated to "
               "exhaustion and checked for linearizability against the untransformed class executed atomically.",
    bounds=dict(
        quick="2 threads, <= 2 pre-emptive context switches, pre-emption possible before every source line and at every "
              "lock acquisition; CircuitBreaker: all 10 unordered pairs over {allow, record_success, record_failure, "
              "record_cancel} from initial states {closed with 0..2 recent failures (threshold in [1,3]), open with the "
              "recovery timeout elapsed or not, half-open with/without probe in flight}; Budget: all 6 unordered pairs over "
              "{consume(1), consume(2), remaining} from 0..2 events of symbolic age, max_retries in [0,3]; every clock "
              "read may advance time by a solver real; translation validation of the transform (single thread, "
              "sequential scheduler, transformed == original on results and final fields)",
        thorough="<= 3 pre-emptions for pairs; 3 threads for the triples {allow,allow,allow}, {fail,fail,fail}, "
                 "{allow,fail,succ} with <= 2 pre-emptions (1 from the closed state when failures are involved) and "
                 "{consume,consume,remaining}, {consume,consume,consume} with <= 1 pre-emption; the state property included",
    ),
    assumptions=["pre-emption granularity is the source line (byte-code level pre-emption inside a line is outside the claim)",
                 "threading.Lock modelled by an owner-recording mutex (standard semantics; re-entrancy would deadlock in both)",
                 "linearizability oracle: some order of the operations, each executed atomically on the untransformed "
                 "class from a copy of the initial state and seeing the clock value it read, gives the same results and "
                 "final fields",
                 "floats as reals"],
    outside=["GIL-free builds", "more than 3 threads", "pre-emption bound above 3"],
)
GOALS = ["two_probes_impossible", "opened_exactly_once", "no_overgrant", "blocked_on_lock", "preempted_inside_critical_section",
         "tv_breaker", "tv_budget"]

# transformed classes, regenerated from the current source at import time (outside the tracer)
P_BREAKER, SRC_BREAKER, NS_BREAKER = threads.preemptible(CircuitBreaker)
P_BUDGET, SRC_BUDGET, NS_BUDGET = threads.preemptible(Budget)

BR_OPS = ["allow", "succ", "fail", "cancel"]
BU_OPS = ["consume1", "consume2", "remaining"]


def snapshot_breaker(b):
    return (b._state, b._opened_at, b._probe_in_flight, tuple(b._failures),
            tuple((k, tuple(v)) for k, v in sorted(b._class_failures.items(), key=lambda kv: kv[0].value)))


def setup_breaker(cls, cfg, clock):
    thr, w, r, init, f0, t0 = cfg
    b = cls(failure_threshold=thr, window_s=w, recovery_timeout_s=r, trip_on={EC.TRANSIENT}, clock=clock)
    if init in ("open", "open_elapsed"):
        b._state = CircuitState.OPEN
        b._opened_at = f0[0]
    elif init == "half":
        b._state = CircuitState.HALF_OPEN
        b._opened_at = f0[0]
        b._probe_in_flight = False
    elif init == "half_probe":
        b._state = CircuitState.HALF_OPEN
        b._opened_at = f0[0]
        b._probe_in_flight = True
    else:
        for x in f0:
            b._failures.append(x)
    return b


def call_breaker(b, name, tid=None):
    kw = {} if tid is None else {"_tid": tid}
    if name == "allow":
        return b.allow(**kw)
    if name == "succ":
        return b.record_success(**kw)
    if name == "fail":
        return b.record_failure(EC.TRANSIENT, **kw)
    if name == "cancel":
        return b.record_cancel(**kw)
    if name == "state":
        return b.get_state(**kw) if tid is not None else b.state
    raise AssertionError(name)


PIN_NF = [None]


def breaker_config(sym, init):
    thr = sym.int("thr", 1, 3)
    w = sym.real("w", lo=0)
    r = sym.real("r", lo=0)
    sym.assume(w > 0)
    sym.assume(r > 0)
    a = sym.real("f0", lo=0)
    b_ = a + sym.real("f01", lo=0)
    t0 = b_ + sym.real("t0d", lo=0)
    if init == "closed":
        nf = PIN_NF[0] if PIN_NF[0] is not None else sym.int("nf", 0, 2)
        f0 = [a, b_][: (0 if nf == 0 else (1 if nf == 1 else 2))]
        sym.assume(len(f0) < thr)
    else:
        f0 = [a]
        if init == "open_elapsed":
            t0 = a + r + sym.real("t0d2", lo=0)
    return (thr, w, r, init, f0, t0)


def h_breaker(sym, params):
    ops, init, pb = params["ops"], params["init"], params["pb"]
    P = P_BREAKER
    PIN_NF[0] = params.get("pin_nf")
    try:
        cfg = breaker_config(sym, init)
    finally:
        PIN_NF[0] = None
    clk = [cfg[5]]
    reads = []
    cur = [None]
    nowof = {}

    def clock():
        clk[0] = clk[0] + sym.real(f"dt{len(reads)}", lo=0)
        reads.append(clk[0])
        nowof[cur[0]] = clk[0]
        return clk[0]
    b = setup_breaker(P, cfg, clock)
    b._lock = threads.NoLock() if params.get("nolock") else threads.ModelLock()
    nt = len(ops)
    gens = [call_breaker(b, ops[t], t) for t in range(nt)]
    try:
        res, order = threads.run_threads(sym, gens, b._lock, pb, before_step=lambda t: cur.__setitem__(0, t))
    except threads.Deadlock as d:
        return ("deadlock", f"{ops} from {init}: no thread can run: {d}")
    final = snapshot_breaker(b)
    # named consequences
    probes = [r for t, r in enumerate(res) if ops[t] == "allow" and r.allowed and r.state is CircuitState.HALF_OPEN]
    if init in ("open", "open_elapsed", "half") and len(probes) > 1:
        return ("two_probes_admitted", f"{ops} from {init}: {len(probes)} racing calls were admitted as half-open probes ({res})")
    opened = [r for t, r in enumerate(res) if ops[t] == "fail" and r == "circuit_opened"]
    if len(opened) > 1 and "allow" not in ops and "succ" not in ops:
        return ("opened_twice", f"{ops} from {init}: circuit_opened reported {len(opened)} times ({res})")
    # linearizability against the untransformed class
    ok = False
    for perm in itertools.permutations(range(nt)):
        curv = [None]
        rb = setup_breaker(CircuitBreaker, cfg, lambda: curv[0])
        rres = [None] * nt
        for t in perm:
            curv[0] = nowof.get(t)
            rres[t] = call_breaker(rb, ops[t])
        if all(rres[t] == res[t] for t in range(nt)) and snapshot_breaker(rb) == final:
            ok = True
            break
    if not ok:
        return ("not_linearizable", f"{ops} from {init}, schedule {order}: results {res}, final {final} match no sequential order")
    sym.cover("two_probes_impossible", init in ("open_elapsed", "half") and ops.count("allow") >= 2)
    sym.cover("opened_exactly_once", len(opened) == 1 and ops.count("fail") >= 2)
    sym.cover("preempted_inside_critical_section", len(set(order)) > 1)
    return None


def setup_budget(cls, cfg):
    cap, w, ev = cfg
    b = cls(max_retries=cap, window_s=w)
    for x in ev:
        b._events.append(x)
    return b


def call_budget(b, name, tid=None):
    kw = {} if tid is None else {"_tid": tid}
    if name == "consume1":
        return b.consume(1, **kw)
    if name == "consume2":
        return b.consume(2, **kw)
    return b.remaining(**kw)


class _Time:
    def __init__(self, fn):
        self.monotonic = fn


def h_budget(sym, params):
    import redress.budget as B
    ops, pb = params["ops"], params["pb"]
    P, ns = P_BUDGET, NS_BUDGET
    cap = sym.int("cap", 0, 3)
    w = sym.real("w", lo=0)
    sym.assume(w > 0)
    n0 = params["pin_n0"] if "pin_n0" in params else sym.int("n0", 0, 2)
    e0 = sym.real("e0", lo=0)
    e1 = e0 + sym.real("e01", lo=0)
    ev = [e0, e1][: (0 if n0 == 0 else (1 if n0 == 1 else 2))]
    sym.assume(len(ev) <= cap)
    cfg = (cap, w, ev)
    clk = [e1]
    reads = []
    cur = [None]
    nowof = {}

    def monotonic():
        clk[0] = clk[0] + sym.real(f"dt{len(reads)}", lo=0)
        reads.append(clk[0])
        nowof[cur[0]] = clk[0]
        return clk[0]
    ns["time"] = _Time(monotonic)
    b = setup_budget(P, cfg)
    b._lock = threads.NoLock() if params.get("nolock") else threads.ModelLock()
    nt = len(ops)
    gens = [call_budget(b, ops[t], t) for t in range(nt)]
    try:
        res, order = threads.run_threads(sym, gens, b._lock, pb, before_step=lambda t: cur.__setitem__(0, t))
    except threads.Deadlock as d:
        return ("deadlock", f"{ops}: no thread can run: {d}")
    except IndexError as e:
        return ("crash", f"{ops}: IndexError inside the component under schedule ({e})")
    final = tuple(b._events)
    now = clk[0]
    live = [x for x in final if now - x < w]
    if len(live) > cap:
        return ("over_grant", f"{ops}: {len(live)} live grants in the window, max_retries {cap}")
    ok = False
    old = B.time
    try:
        for perm in itertools.permutations(range(nt)):
            curv = [None]
            B.time = _Time(lambda: curv[0])
            rb = setup_budget(Budget, cfg)
            rres = [None] * nt
            for t in perm:
                curv[0] = nowof.get(t)
                rres[t] = call_budget(rb, ops[t])
            if all(rres[t] == res[t] for t in range(nt)) and tuple(rb._events) == final:
                ok = True
                break
    finally:
        B.time = old
    if not ok:
        return ("not_linearizable", f"{ops}, schedule {order}: results {res}, final events {final} match no sequential order")
    sym.cover("no_overgrant", ops.count("consume1") + ops.count("consume2") >= 2)
    sym.cover("blocked_on_lock", True)
    return None


def h_tv(sym, params):
    """Translation validation: single thread, the transformed class behaves exactly like the original."""
    import redress.budget as B
    if params["cls"] == "breaker":
        P = P_BREAKER
        init = sym.choice("init", ["closed", "open", "open_elapsed", "half", "half_probe"])
        cfg = breaker_config(sym, init)
        clk = [cfg[5]]

        def clock():
            return clk[0]
        a, b = setup_breaker(P, cfg, clock), setup_breaker(CircuitBreaker, cfg, clock)
        a._lock = threads.ModelLock()
        for j in range(params["K"]):
            clk[0] = clk[0] + sym.real(f"adv{j}", lo=0)
            op = sym.choice(f"op{j}", BR_OPS + ["state"])
            g = call_breaker(a, op, 0)
            try:
                while True:
                    next(g)
            except StopIteration as e:
                ra = e.value
            rb = call_breaker(b, op)
            if ra != rb or snapshot_breaker(a) != snapshot_breaker(b):
                return ("tv_breaker", f"transformed CircuitBreaker differs from the original on {op}: {ra} vs {rb}")
        sym.cover("tv_breaker")
        return None
    P, ns = P_BUDGET, NS_BUDGET
    cap = sym.int("cap", 0, 3)
    w = sym.real("w", lo=0)
    sym.assume(w > 0)
    clk = [sym.real("t0", lo=0)]
    tm = _Time(lambda: clk[0])
    ns["time"] = tm
    old = B.time
    B.time = tm
    try:
        a, b = P(max_retries=cap, window_s=w), Budget(max_retries=cap, window_s=w)
        a._lock = threads.ModelLock()
        for j in range(params["K"]):
            clk[0] = clk[0] + sym.real(f"adv{j}", lo=0)
            op = sym.choice(f"op{j}", BU_OPS)
            g = call_budget(a, op, 0)
            try:
                while True:
                    next(g)
            except StopIteration as e:
                ra = e.value
            rb = call_budget(b, op)
            if ra != rb or tuple(a._events) != tuple(b._events):
                return ("tv_budget", f"transformed Budget differs from the original on {op}: {ra} vs {rb}")
    finally:
        B.time = old
    sym.cover("tv_budget")
    return None


def jobs(tier):
    q = tier == "quick"
    pb = 2 if q else 3
    out = []
    wall = 900 if q else 3000
    inits = ["closed", "open", "open_elapsed", "half", "half_probe"]
    for a, b in itertools.combinations_with_replacement(BR_OPS, 2):
        for init in inits:
            out.append(dict(name=f"breaker:{a}||{b}:{init}:pb={pb}", harness="rv.props.c17:h_breaker",
                            params=dict(ops=[a, b], init=init, pb=pb), max_wall_s=wall,
                            weight=5 if (init == "closed" and "fail" in (a, b)) else 1))
    for a, b in itertools.combinations_with_replacement(BU_OPS, 2):
        out.append(dict(name=f"budget:{a}||{b}:pb={pb}", harness="rv.props.c17:h_budget",
                        params=dict(ops=[a, b], pb=pb), max_wall_s=wall, weight=4))
    if not q:
        for ops in (["allow"] * 3, ["fail"] * 3, ["allow", "fail", "succ"]):
            for init in inits:
                # the closed state with failures is by far the largest tree: one pre-emption there, two elsewhere
                pb3 = 1 if (init == "closed" and "fail" in ops) else 2
                for nf in (range(3) if init == "closed" else [None]):
                    p3 = dict(ops=ops, init=init, pb=pb3)
                    if nf is not None:
                        p3["pin_nf"] = nf
                    out.append(dict(name=f"breaker3:{'||'.join(ops)}:{init}:pb={pb3}" + (f":nf={nf}" if nf is not None else ""),
                                    harness="rv.props.c17:h_breaker", params=p3, max_wall_s=wall, weight=6))
        for ops in (["consume1", "consume1", "remaining"], ["consume1"] * 3):
            for n0 in range(3):
                out.append(dict(name=f"budget3:{'||'.join(ops)}:pb=1:n0={n0}", harness="rv.props.c17:h_budget",
                                params=dict(ops=ops, pb=1, pin_n0=n0), max_wall_s=wall, weight=6))
        for init in inits:
            out.append(dict(name=f"breaker:state||fail:{init}", harness="rv.props.c17:h_breaker",
                            params=dict(ops=["state", "fail"], init=init, pb=pb), max_wall_s=wall, weight=2))
    out.append(dict(name="tv:breaker", harness="rv.props.c17:h_tv", params=dict(cls="breaker", K=2 if q else 3), max_wall_s=wall, weight=3))
    out.append(dict(name="tv:budget", harness="rv.props.c17:h_tv", params=dict(cls="budget", K=3 if q else 4), max_wall_s=wall, weight=3))
    return out
