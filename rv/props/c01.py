"""C01 Attempt caps (global, per-class, UNKNOWN, non-retryable) are never exceeded."""
from rv.world import World, NONRETRY, EC, segments

META = dict(
    level="model_checking",
    bounds=dict(
        quick="whole runs: N=3 scripted attempts (later attempts succeed) over success + {TRANSIENT, UNKNOWN, "
              "PERMANENT} x {exception, result}, max_attempts in [1,4], per-class limit for each of the three "
              "classes absent or in [0,3], UNKNOWN cap absent or in [0,3], through Retry/AsyncRetry call+execute; "
              "all 8 classes x {exception,result} with one limited class per job at N=2 (Retry.call); sugar entry points "
              "(Policy.call, AsyncPolicy.execute, RetryPolicy.execute, AsyncRetryPolicy.call, @retry on a sync and an async function, "
              "RetryPolicy.from_config().call, AsyncRetryPolicy.from_config().execute, caps assigned as attributes on a "
              "RetryPolicy / AsyncRetryPolicy after construction) at N=2; two consecutive calls on "
              "one object at N=2 (Retry.call, AsyncRetry.execute, Policy.call)",
        thorough="N=4 for Retry.call and AsyncRetry.execute (N=3 for the other two runners) / all 8 classes N=3 on two entry points / all sugar entry points N=3 / twice N=3",
    ),
    assumptions=[
        "clock frozen (deadline never interferes), constant zero strategy, no budget, no abort: C02/C03/C13 cover those",
        "classifier is deterministic per failure object",
        "attempt_timeout_s is None",
        "async runs are driven by the coroutine trampoline (rv.env.drive), not an event loop",
    ],
    outside=["max_attempts <= 0", "attempt_timeout_s", "more than N scripted failures per call"],
)
GOALS = ["stop:per_class", "stop:unknown_cap", "stop:global", "stop:nonretry", "success_after_retry",
         "second_call_equal", "result_failure_retried"]

CORE = ["retry.call", "retry.execute", "aretry.call", "aretry.execute"]
SUGAR = ["policy.call", "policy.execute", "apolicy.call", "apolicy.execute", "rp.call", "rp.execute", "arp.call",
         "arp.execute"]
MORE = ["deco.call", "adeco.call", "retrycfg.call", "aretrycfg.execute", "rpcfg.call", "rpcfg.execute", "arpcfg.call", "arpcfg.execute",
        "retry.context", "apolicy.context", "rpset.call", "rpset.execute", "arpset.call", "arpset.execute"]
ALL8 = [c.name for c in EC]


def h_run(sym, params):
    w = World(sym, params)
    calls = params.get("calls", 1)
    traces = []
    with w.env():
        w.build(params["entry"])
        for _ in range(calls):
            w.trace.clear()
            w.invoke()
            traces.append(list(w.trace))
    for ci, tr in enumerate(traces):
        v = check_caps(w, tr, sym)
        if v:
            return (v[0] if ci == 0 else f"call{ci + 1}:" + v[0], v[1])
    if calls > 1:
        # no counter carries over: a later call on the same object performs the same invocations
        ops = [[e[1] for e in tr if e[0] == "op"] for tr in traces]
        for o in ops[1:]:
            if o != ops[0]:
                return ("carry_over", f"first call invoked op {ops[0]}, later call on same object {o}")
        sym.cover("second_call_equal", len(ops[0]) >= 2)
    return None


def check_caps(w, trace, sym):
    _pre, segs = segments(trace)
    nops = len(segs)
    if nops > w.max_attempts:
        return ("global_cap", f"{nops} invocations > max_attempts={w.max_attempts}")
    granted = {}  # class -> retries granted after failures of that class
    for idx, (op, _evs) in enumerate(segs):
        i = op[1]
        kind, _obj, klass = w.objs[i]
        followed = idx + 1 < nops
        if kind == "ok":
            if followed:
                return ("op_after_success", f"attempt {i} succeeded but the operation was invoked again")
            continue
        if klass in NONRETRY and followed:
            return ("nonretry_retried", f"attempt {i} failed with {klass.name} and was retried")
        if followed:
            granted[klass] = granted.get(klass, 0) + 1
            if kind == "res":
                sym.cover("result_failure_retried")
        else:
            lim = w.limits.get(klass)
            if lim is not None and granted.get(klass, 0) >= lim:
                sym.cover("stop:per_class")
            if klass is EC.UNKNOWN and w.cap is not None and granted.get(klass, 0) >= w.cap:
                sym.cover("stop:unknown_cap")
            if klass in NONRETRY:
                sym.cover("stop:nonretry")
            if i >= w.max_attempts:
                sym.cover("stop:global")
    for klass, g in granted.items():
        lim = w.limits.get(klass)
        if lim is not None and g > lim:
            return ("per_class_cap", f"{g} retries granted after {klass.name} failures > limit {lim}")
        if klass is EC.UNKNOWN and w.cap is not None and g > w.cap:
            return ("unknown_cap", f"{g} retries after UNKNOWN failures > max_unknown_attempts {w.cap}")
    if nops >= 2 and w.objs[segs[-1][0][1]][0] == "ok":
        sym.cover("success_after_retry")
    return None


def jobs(tier):
    q = tier == "quick"
    out = []
    three = ["TRANSIENT", "UNKNOWN", "PERMANENT"]
    kinds = ["ok", "exc", "res"]
    # (a) core runners, three behavioural groups, all limits symbolic; split by first outcome
    #     (thorough: N=4 for Retry.call and AsyncRetry.execute, N=3 for the other two)
    for entry in CORE:
        N = 3 if (q or entry in ("retry.execute", "aretry.call")) else 4
        for o1 in range(3):
            for k1 in (range(3) if o1 else [0]):
                pin = {"o1": o1}
                if o1:
                    pin["k1"] = k1
                out.append(dict(name=f"core:N={N}:{entry}:o1={kinds[o1]}:{three[k1] if o1 else '-'}",
                                harness="rv.props.c01:h_run",
                                params=dict(entry=entry, N=N, kinds=kinds, classes=three, limits=three, cap="sym",
                                            hooks=False, pin=pin),
                                max_wall_s=600 if q else 2400, weight=(3 if o1 else 1) * (N - 2)))
    # (b) all 8 classes, one limited class chosen per job
    N = 2 if q else 3
    for entry in (["retry.call"] if q else ["retry.call", "aretry.execute"]):
        for lc in ALL8:
            out.append(dict(name=f"all8:{entry}:limit={lc}", harness="rv.props.c01:h_run",
                            params=dict(entry=entry, N=N, kinds=kinds, classes=ALL8, limits=[lc], cap="sym",
                                        hooks=False),
                            max_wall_s=600 if q else 2400, weight=2))
    # (c) sugar entry points
    N = 2 if q else 3
    for entry in (["policy.call", "apolicy.execute", "rp.execute", "arp.call", "deco.call", "adeco.call", "rpcfg.call", "arpcfg.execute", "rpset.execute", "arpset.call"] if q else SUGAR + MORE):
        out.append(dict(name=f"sugar:{entry}", harness="rv.props.c01:h_run",
                        params=dict(entry=entry, N=N, kinds=kinds, classes=three, limits=three, cap="sym",
                                    hooks=False),
                        max_wall_s=600 if q else 2400, weight=2))
    # (d) two calls on one object
    N = 2 if q else 3
    for entry in (["retry.call", "aretry.execute", "policy.call"] if q else CORE + ["policy.call", "arp.execute"]):
        out.append(dict(name=f"twice:{entry}", harness="rv.props.c01:h_run",
                        params=dict(entry=entry, N=N, kinds=kinds, classes=["TRANSIENT", "UNKNOWN"],
                                    limits=["TRANSIENT", "UNKNOWN"], cap="sym", hooks=False, calls=2),
                        max_wall_s=600 if q else 2400, weight=2))
    return out
