"""C20 Retry-After hints are parsed safely and honoured exactly."""
from rv import engine, env  # noqa: F401
import redress.extras.http as H
import redress.strategies as S
from redress import Classification, ErrorClass, Retry, AsyncRetry
from redress.extras.http import http_retry_after_classifier
from redress.strategies import retry_after_or

EC = ErrorClass
META = dict(
    level="model_checking",
    bounds=dict(
        quick="L1: http_retry_after_classifier on exceptions with status 429 whose Retry-After text is any string of length <= 3 "
              "over the 18-character alphabet {0-9 + - _ . space x M ARABIC-INDIC-3 SUPERSCRIPT-2} (real int(), real parsedate_to_datetime); L2 (unbounded magnitudes): int / float / "
              "parsedate_to_datetime / datetime.now replaced by contract stubs: text parses to an UNBOUNDED solver integer "
              "or to a date (fake aware/naive datetime at a solver-real instant) or to garbage, parsedate may raise "
              "ValueError/OverflowError (each kind has a concrete witness string that makes the real function raise it); "
              "the same date header classified a second time after a solver-real delay; every hint is fed to the real "
              "retry_after_or closure; retry_after attribute of kind {unbounded int, real, NaN, +-inf, bool, str, bytes, list, None, absent}; header "
              "containers: dict with exact / lower / mixed-case key, object with get(), object with get()+items(), list "
              "of pairs, None, get() that raises, response.headers; honouring: Retry/AsyncRetry run with "
              "retry_after_or(jitter_s solver real) and a solver-real hint, attempt duration and deadline",
        thorough="L1 strings of length <= 4",
    ),
    assumptions=["L2 stubs: int(text) returns any integer or raises ValueError; float(n) raises OverflowError iff "
                 "|n| >= 2**1024 - 2**970 else returns n exactly; parsedate_to_datetime returns a datetime or raises "
                 "ValueError/OverflowError; a counterexample found under the stubs is reported only if the concrete witness "
                 "(str(n), or the witness date string) reproduces it on the unstubbed real code",
                 "floats as reals", "uniform(a,b) contract as in C18"],
    outside=["real HTTP-date parsing beyond the witnesses", "header containers with raising __bool__/__iter__ beyond those listed",
             "L1 strings longer than the bound"],
)
GOALS = ["l1_digit_string", "l1_garbage_none", "l2_huge_int_no_hint", "l2_int_exact", "l2_negative_int_clamped",
         "l2_date_future", "l2_date_past_zero", "l2_parsedate_overflow", "l2_parsedate_valueerror", "attr_int", "attr_nan",
         "attr_str", "container_lower_key", "container_mixed_case", "container_pairs", "container_raising_get",
         "response_headers", "honour_hint", "honour_capped_by_remaining", "not_rate_limit_no_hint", "l2_same_date_twice", "hint_fed_to_strategy"]
FLOAT_LIMIT = 2 ** 1024 - 2 ** 970
WITNESS = {"ValueError": "junk", "OverflowError": "Mon, 01 Jan 99999999999999999999 00:00:00 GMT"}


def _check_witnesses():
    from email.utils import parsedate_to_datetime
    ok = {}
    for k, w in WITNESS.items():
        try:
            parsedate_to_datetime(w)
        except Exception as e:  # noqa
            if type(e).__name__ == k:
                ok[k] = w
    return ok


REAL_WITNESS = _check_witnesses()  # at import time, on the real library function


ALPHABET = "0123456789+-_. xM\u0663\u00b2"


class E429(Exception):
    status = 429


def outcome_ok(r):
    """None (no hint) or a non-negative real number of seconds."""
    if isinstance(r, ErrorClass):
        return True, None
    if not isinstance(r, Classification):
        return False, None
    v = r.retry_after_s
    if v is None:
        return True, None
    if isinstance(v, float) and v != v:
        return False, v
    return (v >= 0), v


def h_l1(sym, params):
    # solver-chosen text over a bounded alphabet (digits, signs, separators, space, letters, a non-ASCII digit)
    ln = sym.int("len", 0, params["maxlen"])
    text = ""
    for j in range(params["maxlen"]):
        if j < ln:
            text += (ALPHABET[params["first"]] if j == 0 and "first" in params else sym.choice(f"ch{j}", list(ALPHABET)))
    if "first" in params:
        sym.assume(ln >= 1)
    e = E429()
    e.headers = {"Retry-After": text}
    try:
        r = http_retry_after_classifier(e)
    except Exception as x:  # noqa
        return (f"raises:{type(x).__name__}", f"http_retry_after_classifier raised {x!r} for Retry-After={text!r}")
    ok, v = outcome_ok(r)
    if not ok:
        return ("bad_hint", f"Retry-After={text!r} gave retry_after_s={v!r}")
    if len(text) >= 1 and all("0" <= c <= "9" for c in text):
        if v is None or v != int(text):
            return ("digits_not_exact", f"Retry-After={text!r} gave {v!r}")
        sym.cover("l1_digit_string")
    else:
        sym.cover("l1_garbage_none", v is None)
    return None


import builtins as _b


class _StubMeta(type):
    """Lets a stub stand in for the builtin type name inside redress.extras.http: callable like the builtin
    (through ``impl``), while isinstance() checks and ``int | float`` unions keep their builtin meaning."""

    def __instancecheck__(cls, x):
        return isinstance(x, cls.real)

    def __or__(cls, other):
        return (cls.real, getattr(other, "real", other))

    def __ror__(cls, other):
        return (getattr(other, "real", other), cls.real)

    def __call__(cls, *a):
        return cls.impl(*a)


class FakeInt(metaclass=_StubMeta):
    real = _b.int
    impl = None


class FakeFloat(metaclass=_StubMeta):
    real = _b.float
    impl = None


class FakeTD:
    def __init__(self, s):
        self.s = s

    def total_seconds(self):
        return self.s


class FakeDT:
    def __init__(self, ts, tzinfo):
        self.ts, self.tzinfo = ts, tzinfo

    def replace(self, tzinfo=None):
        return FakeDT(self.ts, tzinfo)

    def __sub__(self, o):
        if (self.tzinfo is None) != (o.tzinfo is None):
            raise TypeError("can't subtract offset-naive and offset-aware datetimes")
        return FakeTD(self.ts - o.ts)


def h_l2(sym, params):
    """Unbounded magnitudes through contract stubs; confirmed on the real code with a concrete witness on replay."""
    src = sym.choice("source", ["header", "attr_str", "attr_num"])
    kind = sym.choice("text_kind", ["int", "date", "garbage", "parsedate_raises"]) if src != "attr_num" else "num"
    n = sym.int("n") if kind == "int" else None
    now_ts = sym.real("now_ts")
    date_ts = sym.real("date_ts") if kind == "date" else None
    aware = sym.bool("aware") if kind == "date" else True
    pexc = sym.choice("parsedate_exc", sorted(REAL_WITNESS)) if kind == "parsedate_raises" else None
    num = None
    if kind == "num":
        nk = sym.choice("num_kind", ["int", "real", "nan", "inf", "-inf", "true"])
        num = {"int": lambda: sym.int("num"), "real": lambda: sym.real("num"), "nan": lambda: float("nan"),
               "inf": lambda: float("inf"), "-inf": lambda: float("-inf"), "true": lambda: True}[nk]()
    TOKEN = "<text>"

    def fake_int(raw):
        if raw != TOKEN or kind != "int":
            raise ValueError("invalid literal")
        return n

    def fake_float(x):
        if isinstance(x, bool):
            return 1.0 if x else 0.0
        if isinstance(x, float) or hasattr(x, "var") and not engine._CH.z3.is_int(x.var):
            return x
        if x >= FLOAT_LIMIT or x <= -FLOAT_LIMIT:
            raise OverflowError("int too large to convert to float")
        return x + 0.0

    def fake_parsedate(raw):
        if kind == "date":
            return FakeDT(date_ts, object() if aware else None)
        if kind == "parsedate_raises":
            raise {"ValueError": ValueError, "OverflowError": OverflowError}[pexc]("stub")
        raise ValueError("not a date")

    later = sym.real("later", lo=0) if kind == "date" else 0
    clock = [now_ts]

    class FakeDatetime:
        @staticmethod
        def now(tz=None):
            return FakeDT(clock[0], tz)

    e = E429()
    if src == "header":
        e.headers = {"Retry-After": TOKEN}
    elif src == "attr_str":
        e.retry_after = TOKEN
    else:
        e.retry_after = num
    saved = {k: H.__dict__.get(k, None) for k in ("int", "float", "parsedate_to_datetime", "datetime")}
    FakeInt.impl, FakeFloat.impl = staticmethod(fake_int), staticmethod(fake_float)
    H.int, H.float, H.parsedate_to_datetime, H.datetime = FakeInt, FakeFloat, fake_parsedate, FakeDatetime
    r_again = None
    try:
        try:
            r = http_retry_after_classifier(e)
            exc = None
            if kind == "date":
                # the same header seen again after `later` seconds: the hint must be recomputed against the new instant
                clock[0] = now_ts + later
                r_again = http_retry_after_classifier(e)
        except Exception as x:  # noqa
            r, exc = None, x
    finally:
        for k, v in saved.items():
            if v is None:
                H.__dict__.pop(k, None)
            else:
                setattr(H, k, v)
    verdict = None
    if exc is not None:
        verdict = (f"raises:{type(exc).__name__}", f"http_retry_after_classifier raised {exc!r} ({src}, {kind})")
    else:
        ok, v = outcome_ok(r)
        if not ok:
            verdict = ("bad_hint", f"{src}/{kind}: retry_after_s={v!r}")
        elif kind == "int" and v is not None and isinstance(v, int) and not isinstance(v, bool) and v >= FLOAT_LIMIT:
            # an integer hint beyond the float range cannot be consumed by any float-based strategy
            # (math.isfinite / float() raise OverflowError); the statement promises a number of seconds only
            # for integers within float range
            verdict = ("huge_int_hint", "a decimal integer >= 2**1024 - 2**970 was handed on unchanged as an int hint")
        elif kind == "int":
            if -FLOAT_LIMIT < n < FLOAT_LIMIT:
                exp = n if n > 0 else 0
                if v is None or v != exp:
                    verdict = ("int_not_exact", f"decimal integer {n} gave {v!r}, expected {exp}")
                sym.cover("l2_int_exact", n > 10 ** 20)
                sym.cover("l2_negative_int_clamped", n < 0)
            else:
                sym.cover("l2_huge_int_no_hint")
        elif kind == "date":
            d = date_ts - now_ts
            exp = d if d > 0 else 0
            if v is None or v != exp:
                verdict = ("date_delta", f"HTTP-date at {date_ts}, now {now_ts}: gave {v!r}, expected {exp}")
            sym.cover("l2_date_future", d > 0)
            sym.cover("l2_date_past_zero", d < 0)
            if verdict is None:
                ok2, v2 = outcome_ok(r_again)
                d2 = date_ts - (now_ts + later)
                exp2 = d2 if d2 > 0 else 0
                if not ok2 or v2 is None or v2 != exp2:
                    verdict = ("date_delta_second_call", f"the same HTTP-date seen again {later}s later gave {v2!r}, expected {exp2} "
                                                         f"(first call gave {v!r})")
                sym.cover("l2_same_date_twice", later > 0)
        elif kind in ("garbage", "parsedate_raises"):
            if v is not None:
                verdict = ("garbage_hint", f"garbage text gave a hint {v!r}")
            if kind == "parsedate_raises":
                sym.cover("l2_parsedate_overflow" if pexc == "OverflowError" else "l2_parsedate_valueerror")
        elif kind == "num":
            sym.cover("attr_int", nk == "int")
            sym.cover("attr_nan", nk == "nan")
    if verdict is None and exc is None and isinstance(r, Classification):
        # whatever hint the classifier hands on must be usable by retry_after_or (unstubbed)
        from redress.strategies import BackoffContext
        try:
            s_ = retry_after_or(lambda ctx: 1.0, jitter_s=0.0)(
                BackoffContext(attempt=1, classification=r, prev_sleep_s=None, remaining_s=None, cause="exception"))
            if isinstance(s_, float) and s_ != s_ or s_ < 0:
                verdict = ("hint_unusable", f"retry_after_or returned {s_!r} for the hint {r.retry_after_s!r}")
        except Exception as x:  # noqa
            verdict = ("hint_unusable", f"retry_after_or raised {x!r} for the hint {r.retry_after_s!r:.60} ({src}, {kind})")
        sym.cover("hint_fed_to_strategy")
    if src == "attr_str" and verdict is None:
        sym.cover("attr_str")
    if verdict is not None and not sym.symbolic:
        # replay: the stubs are only believed together with a concrete witness on the unstubbed real code
        real = None
        if kind == "int":
            real = str(n)
        elif kind == "parsedate_raises":
            real = REAL_WITNESS[pexc]
        elif kind == "num" and not hasattr(num, "numerator") or isinstance(num, (int, bool)):
            real = num
        if real is not None:
            e2 = E429()
            if src == "header":
                e2.headers = {"Retry-After": real}
            else:
                e2.retry_after = real
            try:
                r2 = http_retry_after_classifier(e2)
                ok2, v2 = outcome_ok(r2)
                if verdict[0] == "huge_int_hint":
                    from redress.strategies import BackoffContext
                    try:
                        retry_after_or(lambda ctx: 1.0, jitter_s=0.0)(
                            BackoffContext(attempt=1, classification=r2 if isinstance(r2, Classification) else Classification(klass=EC.RATE_LIMIT),
                                           prev_sleep_s=None, remaining_s=None, cause="exception"))
                        return None  # the real hint is usable by retry_after_or: not reproduced
                    except Exception as x:  # noqa
                        return (verdict[0], f"Retry-After of {len(str(n))} digits gives a hint on which retry_after_or raises {x!r}")
                if verdict[0] == "int_not_exact":
                    exp2 = float(max(n, 0)) if -FLOAT_LIMIT < n < FLOAT_LIMIT else None
                    if ok2 and (exp2 is None or v2 == exp2):
                        return None  # the real code parses the witness str(n) correctly: stub artefact
                    return (verdict[0], f"decimal integer text {real!r:.60} gave {v2!r} on the real code, expected {exp2!r}")
                if ok2 and verdict[0] != "garbage_hint":
                    return None  # does not reproduce on the real code: stub artefact
            except Exception as x:  # noqa
                return (verdict[0], verdict[1] + f"; reproduced on the real code with {src}={real!r:.80}: {x!r}")
    return verdict


class GetOnly:
    def __init__(self, d, raising=False):
        self.d, self.raising = d, raising

    def get(self, k, default=None):
        if self.raising:
            raise RuntimeError("get failed")
        return self.d.get(k, default)


class GetItems(GetOnly):
    def items(self):
        return self.d.items()


def h_container(sym, params):
    shape = sym.choice("shape", ["dict_exact", "dict_lower", "dict_mixed", "get_exact", "get_lower", "getitems_mixed",
                                 "pairs", "pairs_mixed", "none", "raising_get", "response_headers", "int_value", "empty_dict",
                                 "not_iterable"])
    klass_status = sym.choice("status", [429, 503])
    secs = sym.int("secs", 0, 3)
    text = str(7 + secs)  # concrete small digit strings; magnitude is L2's subject
    e = E429()
    e.status = klass_status
    H_ = "Retry-After"
    cont = {"dict_exact": {H_: text}, "dict_lower": {"retry-after": text}, "dict_mixed": {"RETRY-after": text},
            "get_exact": GetOnly({H_: text}), "get_lower": GetOnly({"retry-after": text}),
            "getitems_mixed": GetItems({"rEtRy-AfTeR": text}), "pairs": [("X", "1"), (H_, text)],
            "pairs_mixed": [("retry-AFTER", text)], "none": None, "raising_get": GetOnly({}, raising=True),
            "int_value": {H_: 7 + secs}, "empty_dict": {}, "not_iterable": 5}.get(shape)
    if shape == "response_headers":
        class R:
            headers = {H_: text}
        e.response = R()
    else:
        e.headers = cont
    try:
        r = http_retry_after_classifier(e)
    except Exception as x:  # noqa
        return (f"raises:{type(x).__name__}", f"container shape {shape}: raised {x!r}")
    ok, v = outcome_ok(r)
    if not ok:
        return ("bad_hint", f"container {shape}: {v!r}")
    if klass_status != 429:
        if v is not None or isinstance(r, Classification):
            return ("hint_without_rate_limit", f"status {klass_status}: {r!r}")
        sym.cover("not_rate_limit_no_hint")
        return None
    found = shape in ("dict_exact", "dict_lower", "dict_mixed", "get_exact", "get_lower", "getitems_mixed", "pairs",
                      "pairs_mixed", "response_headers", "int_value")
    if found and v != 7 + secs:
        return ("header_not_found", f"container shape {shape} holds Retry-After={text} but the hint is {v!r}")
    if not found and v is not None:
        return ("phantom_hint", f"container shape {shape} gave {v!r}")
    sym.cover({"dict_lower": "container_lower_key", "dict_mixed": "container_mixed_case", "pairs": "container_pairs",
               "raising_get": "container_raising_get", "response_headers": "response_headers"}.get(shape, "other"))
    return None


def h_honour(sym, params):
    """A policy using retry_after_or waits at least the hint and at most hint + jitter_s, unless less time remains."""
    from rv.props.c18 import patched_random
    from rv.world import Fail
    hint = sym.real("hint", lo=0)
    jit = sym.real("jitter_s", lo=0)
    D = sym.real("deadline", lo=0)
    d1 = sym.real("d1", lo=0)
    clock = env.Clock(0)
    sleeps = []
    n = [0]

    def op():
        n[0] += 1
        if n[0] == 1:
            clock.now = clock.now + d1
            raise Fail(1, EC.RATE_LIMIT)
        return "ok"

    async def aop():
        await env.Suspend()
        return op()
    with env.patched(clock), patched_random(sym):
        mk = AsyncRetry if params["async"] else Retry
        pol = mk(classifier=lambda e: Classification(klass=EC.RATE_LIMIT, retry_after_s=hint),
                 strategy=retry_after_or(lambda ctx: 99.0, jitter_s=jit), deadline_s=D, max_attempts=3)
        try:
            if params["async"]:
                env.drive(pol.call(aop, sleeper=sleeps.append))
            else:
                pol.call(op, sleeper=sleeps.append)
        except Fail:
            pass
    if not sleeps:
        return None
    s = sleeps[0]
    rem = D - d1
    lo = hint if hint < rem else rem
    hi = hint + jit if hint + jit < rem else rem
    if s < lo or s > hi:
        return ("hint_not_honoured", f"hint {hint}s, jitter_s {jit}, remaining {rem}: slept {s}, allowed [{lo}, {hi}]")
    sym.cover("honour_hint", hint < rem)
    sym.cover("honour_capped_by_remaining", rem < hint)
    return None


def jobs(tier):
    q = tier == "quick"
    wall = 900 if q else 3000
    out = [dict(name=f"l1:len<={3 if q else 4}:first={ALPHABET[c]!r}", harness="rv.props.c20:h_l1",
                params=dict(maxlen=3 if q else 4, first=c), max_wall_s=wall, weight=5) for c in range(len(ALPHABET))]
    out += [dict(name="l1:empty", harness="rv.props.c20:h_l1", params=dict(maxlen=0), max_wall_s=wall),
           dict(name="l2:stubs", harness="rv.props.c20:h_l2", params={}, max_wall_s=wall, weight=2),
           dict(name="containers", harness="rv.props.c20:h_container", params={}, max_wall_s=wall, weight=1),
           dict(name="honour:sync", harness="rv.props.c20:h_honour", params={"async": False}, max_wall_s=wall, weight=1),
           dict(name="honour:async", harness="rv.props.c20:h_honour", params={"async": True}, max_wall_s=wall, weight=1)]
    return out
