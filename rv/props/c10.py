"""C10 Shared retry budget: at most max_retries retries per rolling window."""
from rv import env
from rv.world import EC, Fail
from redress import Budget, Retry, AsyncRetry

META = dict(
    level="model_checking",
    bounds=dict(
        quick="histories of K=5 operations on a fresh Budget (max_retries in [0,3], window_s a solver real > 0), each "
              "consume(cost in {1,2}) or remaining(), each preceded by a solver-real clock advance >= 0; inductive step harness "
              "(histories of ANY length): one operation from an arbitrary state satisfying the representation invariant "
              "(<= max_retries sorted events of arbitrary real ages, max_retries in [0,3]) must answer correctly and "
              "re-establish the invariant; policy level: 3 "
              "always-failing calls alternating between two Retry/AsyncRetry objects sharing one Budget (max_retries in "
              "[0,2]), max_attempts 2, solver-real gaps between calls and sleeper overshoots",
        thorough="K=6; 3 policy calls with max_attempts 3; step harness with max_retries <= 4",
    ),
    assumptions=["floats as reals; a grant made at instant g occupies the half-open interval [g, g + window_s)",
                 "single-threaded use (C17 covers interleavings)"],
    outside=["max_retries > 3 (4 thorough) in the step harness", "consume(cost) with cost > 2"],
)
GOALS = ["refused_when_full", "granted_after_age_out", "boundary_age_equal_window", "cost2_granted", "cost2_refused_partial_room",
         "remaining_checked", "policy_budget_exhausted", "policy_retry_after_age_out", "step_grant_after_age_out", "step_refusal"]


def window_ok(grants, window, cap):
    """every half-open interval [g, g+window) holds at most cap grants; grants are in ascending order, so this is
    g[i+cap] - g[i] >= window for every i (one comparison per grant, none of which forks when the property holds)"""
    for i in range(len(grants) - cap):
        if grants[i + cap] - grants[i] < window:
            return (grants[i], cap + 1)
    return None


def h_hist(sym, params):
    K = params["K"]
    cap = sym.int("max_retries", 0, 3)
    window = sym.real("window", lo=0)
    sym.assume(window > 0)
    clock = env.Clock(sym.real("t0", lo=0))
    grants = []  # one entry per token
    pins = params.get("pin_ops", [])
    OPS = ["consume1", "consume2", "remaining"]
    with env.patched(clock):
        b = Budget(max_retries=cap, window_s=window)
        for j in range(K):
            clock.now = clock.now + sym.real(f"adv{j}", lo=0)
            now = clock.now
            op = OPS[pins[j]] if j < len(pins) else sym.choice(f"op{j}", OPS)
            live = [g for g in grants if now - g < window]
            if grants:
                sym.cover("boundary_age_equal_window", now - grants[0] == window)
            if op == "remaining":
                r = b.remaining()
                exp = cap - len(live)
                if exp < 0:
                    exp = 0
                if r != exp:
                    return ("remaining", f"step {j}: remaining()={r}, live grants in window {len(live)}, max_retries {cap}")
                sym.cover("remaining_checked", len(live) >= 1)
                continue
            cost = 1 if op == "consume1" else 2
            ok = b.consume(cost)
            room = len(live) + cost <= cap
            if ok and not room:
                return ("over_grant", f"step {j}: consume({cost}) granted with {len(live)} live grants, max_retries {cap}")
            if not ok and room:
                return ("unjustified_refusal", f"step {j}: consume({cost}) refused with {len(live)} live grants, max_retries {cap}")
            if ok:
                grants.extend([now] * cost)
                sym.cover("granted_after_age_out", len(live) < len(grants) - cost)
                if cost == 2:
                    sym.cover("cost2_granted")
            else:
                sym.cover("refused_when_full")
                if cost == 2 and len(live) + 1 <= cap:
                    sym.cover("cost2_refused_partial_room")
            bad = window_ok(grants, window, cap)
            if bad:
                return ("window_overfull", f"{bad[1]} grants inside the window starting at {bad[0]} (max_retries {cap})")
    return None


def h_policy(sym, params):
    cap = sym.int("max_retries", 0, 2)
    window = sym.real("window", lo=0)
    sym.assume(window > 0)
    clock = env.Clock(0)
    is_async = params["async"]
    events = []
    nd = [0]

    def op():
        nd[0] += 1
        raise Fail(nd[0], EC.TRANSIENT)

    async def aop():
        await env.Suspend()
        op()
    ns = [0]

    def sleeper(s):
        ns[0] += 1
        clock.now = clock.now + s + sym.real(f"ov{ns[0]}", lo=0)

    def on_metric(ev, attempt, sleep_s, tags):
        events.append((ev, clock.now))
    with env.patched(clock):
        b = Budget(max_retries=cap, window_s=window)
        mk = AsyncRetry if is_async else Retry
        pols = [mk(classifier=lambda e: EC.TRANSIENT, strategy=lambda c: 0.0, max_attempts=params.get("max_attempts", 2), deadline_s=10 ** 9, budget=b)
                for _ in range(2)]
        for c in range(params["calls"]):
            clock.now = clock.now + sym.real(f"gap{c}", lo=0)
            p = pols[c % 2]
            try:
                if is_async:
                    env.drive(p.call(aop, on_metric=on_metric, sleeper=sleeper))
                else:
                    p.call(op, on_metric=on_metric, sleeper=sleeper)
            except Fail:
                pass
    retries = [t for (ev, t) in events if ev == "retry"]
    bad = window_ok(retries, window, cap)
    if bad:
        return ("policy_window_overfull", f"{bad[1]} retries granted inside the window starting at {bad[0]} (max_retries {cap})")
    for (ev, t) in events:
        if ev == "budget_exhausted":
            live = [g for g in retries if g <= t and t - g < window]
            if len(live) + 1 <= cap:
                return ("policy_unjustified_refusal", f"BUDGET_EXHAUSTED at {t} with only {len(live)} retries in the window (max_retries {cap})")
            sym.cover("policy_budget_exhausted")
    if len(retries) > cap:
        sym.cover("policy_retry_after_age_out")
    return None


def h_step(sym, params):
    """Inductive step (histories of ANY length): from an arbitrary state satisfying the representation invariant
    (events sorted, len <= max_retries, none later than the clock), one operation must answer correctly and
    re-establish the invariant.  The empty budget satisfies the invariant, so by induction every reachable state does.
    Grants that were already pruned are <= (last prune instant - window) and can never share a window with a
    future grant, so the deque itself is a sufficient ghost history."""
    cap = sym.int("max_retries", 0, params["cap"])
    window = sym.real("window", lo=0)
    sym.assume(window > 0)
    k = sym.int("k", 0, params["cap"])
    sym.assume(k <= cap)
    ev = []
    t = sym.real("e0", lo=0)
    for i in range(params["cap"]):
        if i < k:
            ev.append(t)
            t = t + sym.real(f"gap{i}", lo=0)
    clock = env.Clock(t + sym.real("since_last", lo=0))
    op = ["consume1", "consume2", "remaining"][params["pin_op"]] if "pin_op" in params else sym.choice("op", ["consume1", "consume2", "remaining"])
    with env.patched(clock):
        b = Budget(max_retries=cap, window_s=window)
        for e in ev:
            b._events.append(e)
        now = clock.now
        live = [g for g in ev if now - g < window]
        if op == "remaining":
            r = b.remaining()
            exp = cap - len(live)
            if exp < 0:
                exp = 0
            if r != exp:
                return ("step:remaining", f"remaining()={r} with {len(live)} live grants, max_retries {cap}")
        else:
            cost = 1 if op == "consume1" else 2
            ok = b.consume(cost)
            room = len(live) + cost <= cap
            if ok and not room:
                return ("step:over_grant", f"consume({cost}) granted with {len(live)} live grants of {ev} at {now}, max_retries {cap}")
            if not ok and room:
                return ("step:unjustified_refusal", f"consume({cost}) refused with {len(live)} live grants, max_retries {cap}")
            sym.cover("step_grant_after_age_out", ok and len(live) < len(ev))
            sym.cover("step_refusal", not ok)
        post = list(b._events)
        if len(post) > cap:
            return ("step:invariant_len", f"{len(post)} events kept with max_retries {cap}")
        for i in range(len(post) - 1):
            if post[i] > post[i + 1]:
                return ("step:invariant_sorted", f"events not sorted: {post}")
        for g in post:
            if g > now:
                return ("step:invariant_future", f"event {g} later than the clock {now}")
        # every grant that can still share a window with a future grant must have been kept
        for g in live:
            if g not in post:
                return ("step:live_grant_dropped", f"grant at {g} is still inside the window at {now} but was pruned")
    return None


def jobs(tier):
    q = tier == "quick"
    K = 5 if q else 6
    out = []
    wall = 600 if q else 3000
    for a in range(3):
        for b_ in range(3):
            for c_ in range(3):
                out.append(dict(name=f"hist:K={K}:{a},{b_},{c_}", harness="rv.props.c10:h_hist",
                                params=dict(K=K, pin_ops=[a, b_, c_]), max_wall_s=wall, weight=3))
    for o in range(3):
        out.append(dict(name=f"step:op={o}", harness="rv.props.c10:h_step", params=dict(cap=3 if q else 4, pin_op=o),
                        max_wall_s=wall, weight=2))
    for a in (False, True):
        out.append(dict(name=f"policy:{'async' if a else 'sync'}", harness="rv.props.c10:h_policy",
                        params={"async": a, "calls": 3, "max_attempts": 2 if q else 3}, max_wall_s=wall, weight=4))
    return out
