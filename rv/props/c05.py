"""C05 Backoff delay = the failure class's strategy output, sanitised and capped."""
from rv.world import World, segments, EC
from redress import RetryExhaustedError, StopReason

META = dict(
    level="model_checking",
    bounds=dict(
        quick="whole runs, Retry/AsyncRetry call+execute: N=3 failures over classes {TRANSIENT, RATE_LIMIT, UNKNOWN} x "
              "{exception, result}; strategy table entries for TRANSIENT and RATE_LIMIT each present or absent plus a "
              "default (one spy each); context-style and legacy 3-argument signatures; classifier returns "
              "Classification objects with retry_after_s (selection jobs: distinct concrete raw values, frozen clock); "
              "sanitisation jobs: one class, every raw strategy value a solver choice of {any real, NaN, +inf, -inf}, "
              "symbolic durations, overshoots and deadline (so `remaining` matters); sleep handler SLEEP/DEFER job; execute(): an on_attempt_start hook that raises a retryable "
              "exception on attempt 1 or 2 (the strategy must be told that attempt's number); a job in "
              "which the strategy itself takes a solver-real time (delay must stay within [0, remaining told to it])",
        thorough="N=4",
    ),
    assumptions=["floats as reals, NaN/+inf/-inf injected explicitly", "TD linear timedelta stub", "attempt_timeout_s None"],
    outside=["IEEE rounding of deadline - elapsed"],
)
GOALS = ["class_strategy_used", "default_strategy_used", "class_changes_between_failures", "nan_to_zero", "inf_to_zero",
         "negative_to_zero", "capped_at_remaining", "prev_sleep_is_applied_delay", "legacy_signature", "deferred_next_sleep",
         "retry_after_passed", "strategy_took_time", "start_hook_raised"]


def h_run(sym, params):
    w = World(sym, params)
    w.run(params["entry"])
    return check_delay(w, w.trace, w.result, sym)


def check_attempt_numbers(w, trace, sym):
    """With attempt hooks on: every strategy call is told the number of the attempt that was most recently started
    (also when the start hook itself raised and the operation was never invoked)."""
    started = None
    for ev in trace:
        if ev[0] == "attempt_start":
            started = ev[1]
        elif ev[0] == "strategy" and started is not None:
            if ev[3]["attempt"] != started:
                return ("ctx:attempt", f"strategy was told attempt={ev[3]['attempt']} while attempt {started} was the one that failed")
        elif ev[0] == "hook_raises" and ev[1] == "attempt_start":
            sym.cover("start_hook_raised")
    return None


class HookFail(Exception):
    """raised by the on_attempt_start hook; the world's classifier reads .klass"""

    def __init__(self):
        super().__init__("start hook failed")
        self.klass = EC.TRANSIENT
        self.i = None


def h_hooks(sym, params):
    w = World(sym, params)
    j = sym.choice("hook_fault_at", [1, 2])
    w.fault = dict(site="attempt_start", exc=HookFail, at=j)
    w.run(params["entry"])
    return check_attempt_numbers(w, w.trace, sym)


def check_delay(w, trace, result, sym):
    D = w.deadline
    t0 = next(e[2] for e in trace if e[0] == "begin")
    _pre, segs = segments(trace)
    prev_applied = None
    prev_class = None
    kind, out = result
    for idx, (op, evs) in enumerate(segs):
        i = op[1]
        okind, obj, klass = w.objs[i]
        st = [e for e in evs if e[0] == "strategy"]
        retry = [e for e in evs if e[0] == "metric" and e[1] == "retry"]
        sl = [e for e in evs if e[0] == "sleep"]
        hs = [e for e in evs if e[0] == "handler"]
        if len(st) > 1:
            return ("strategy_called_twice", f"strategy called {len(st)} times after attempt {i}")
        if okind == "ok":
            if st:
                return ("strategy_after_success", "strategy called after a success")
            continue
        if retry and len(st) != 1:
            return ("retry_without_strategy", f"retry granted after attempt {i} with {len(st)} strategy calls")
        if not st:
            continue
        _, which, _n, c, raw, rk = st[0]
        expected_which = klass.name if klass in w.strat_table else "default"
        if which != expected_which:
            return ("wrong_strategy", f"attempt {i} failed with {klass.name}; strategy '{which}' was consulted, expected '{expected_which}'")
        sym.cover("class_strategy_used" if which != "default" else "default_strategy_used")
        if prev_class is not None and prev_class is not klass:
            sym.cover("class_changes_between_failures")
        t_fail = next(e[2] for e in evs if e[0] == "op_end")
        remaining = D - (t_fail - t0)
        if c["attempt"] != i:
            return ("ctx:attempt", f"strategy saw attempt={c['attempt']} on attempt {i}")
        if c["klass"] is not klass:
            return ("ctx:klass", f"strategy saw class {c['klass']} for a {klass} failure")
        if c["prev"] is None:
            if prev_applied is not None:
                return ("ctx:prev_sleep", f"prev_sleep_s=None although {prev_applied} was applied before")
        elif prev_applied is None or c["prev"] != prev_applied:
            return ("ctx:prev_sleep", f"prev_sleep_s={c['prev']}, previously applied delay was {prev_applied}")
        if prev_applied is not None:
            sym.cover("prev_sleep_is_applied_delay")
        if c["legacy"]:
            sym.cover("legacy_signature")
        else:
            if c["remaining"] != remaining:
                return ("ctx:remaining", f"remaining_s={c['remaining']}, true remaining time {remaining}")
            if c["cause"] != ("exception" if okind == "exc" else "result"):
                return ("ctx:cause", f"cause={c['cause']} for a {okind} failure")
            if w.rclass_obj:
                if c["classification"] is not w.classifications[i]:
                    return ("ctx:classification", "strategy did not receive the classifier's Classification object")
                sym.cover("retry_after_passed", c["classification"].retry_after_s is not None)
            elif c["classification"].klass is not klass:
                return ("ctx:classification", "classification.klass differs")
        if rk in ("nan", "inf", "-inf"):
            base = 0
            sym.cover("nan_to_zero" if rk == "nan" else "inf_to_zero")
        elif rk == "zero":
            base = 0
        elif rk == "const":
            base = raw
        else:
            sym.cover("negative_to_zero", raw < 0)
            base = raw if raw > 0 else 0
        applied = base if base < remaining else remaining
        sym.cover("capped_at_remaining", remaining < base)
        if w.p.get("strat_time"):
            # the strategy itself took time: whichever instant 'remaining' refers to, the delay handed on must be
            # sanitised (>= 0), must not exceed the remaining time the strategy was told, and is the raw value when
            # that fits even into what is left afterwards
            t_after = next((e[2] for e in sl), None)
            for name, val in ([("retry event", retry[0][3])] if retry else []) + [("sleeper", e[1]) for e in sl]:
                if val < 0:
                    return ("negative_delay", f"{name} got the negative delay {val} (strategy took time; raw {raw}, remaining {remaining})")
                if val > remaining:
                    return ("delay_exceeds_remaining", f"{name} got {val} with {remaining} remaining when the strategy was consulted")
            sym.cover("strategy_took_time", len(sl) >= 1)
            if retry:
                prev_applied = retry[0][3]
            prev_class = klass
            continue
        if retry:
            if retry[0][3] != applied:
                return ("retry_event_sleep_s", f"`retry` event reports sleep_s={retry[0][3]}, expected {applied} (raw {raw}, remaining {remaining})")
            if retry[0][2] != i:
                return ("retry_event_attempt", f"`retry` event attempt={retry[0][2]} on attempt {i}")
            for e in hs:
                if e[2] != applied:
                    return ("handler_delay", f"sleep handler got {e[2]}, expected {applied}")
            for e in sl:
                if e[1] != applied:
                    return ("sleeper_delay", f"sleeper got {e[1]}, expected {applied}")
            from redress import SleepDecision
            if hs and hs[0][3] is SleepDecision.DEFER:
                ns = out.next_sleep_s if kind in ("outcome",) or isinstance(out, RetryExhaustedError) else None
                if ns != applied:
                    return ("next_sleep_s", f"next_sleep_s={ns}, expected {applied}")
                sym.cover("deferred_next_sleep")
            prev_applied = applied
        prev_class = klass
    return None


def jobs(tier):
    q = tier == "quick"
    N = 3 if q else 4
    out = []
    classes = ["TRANSIENT", "RATE_LIMIT", "UNKNOWN"]
    wall = 600 if q else 3000
    for entry in ["retry.call", "retry.execute", "aretry.call", "aretry.execute"]:
        # (i) which strategy is consulted and what it is told: class sequences x table presence, frozen clock
        for legacy in (False, True):
            for k1 in range(3):
                out.append(dict(name=f"select:{entry}:legacy={legacy}:k1={classes[k1]}", harness="rv.props.c05:h_run",
                                params=dict(entry=entry, N=N, kinds=["exc", "res"], classes=classes, max_attempts=N + 1,
                                            cap=None, rclass_obj=not legacy, retry_after="const",
                                            strat=dict(table=["TRANSIENT", "RATE_LIMIT"], default=True, raw="const",
                                                       legacy=legacy),
                                            pin={"k1": k1}),
                                max_wall_s=wall, weight=3))
        # (ii) sanitisation and the cap at the remaining time: raw in {real, NaN, +-inf}, symbolic timings
        for rk1 in range(4):
            out.append(dict(name=f"sanitise:{entry}:raw1={rk1}", harness="rv.props.c05:h_run",
                            params=dict(entry=entry, N=N, kinds=["exc"], classes=["TRANSIENT"], max_attempts=N + 1,
                                        timed=True, strat=dict(raw="any"), pin={"rawkind1": rk1}),
                            max_wall_s=wall, weight=3))
        out.append(dict(name=f"strat_time:{entry}", harness="rv.props.c05:h_run",
                        params=dict(entry=entry, N=2 if q else 3, kinds=["exc"], classes=["TRANSIENT"], max_attempts=N + 1,
                                    timed=True, strat_time=True, strat=dict(raw="real")),
                        max_wall_s=wall, weight=2))
        if entry.endswith("execute"):  # in call() an exception from on_attempt_start propagates by design
            out.append(dict(name=f"start_hook_raises:{entry}", harness="rv.props.c05:h_hooks",
                            params=dict(entry=entry, N=2, kinds=["ok", "exc"], classes=["TRANSIENT"], max_attempts=3,
                                        attempt_hooks=True, hooks=False), max_wall_s=wall, weight=1))
        out.append(dict(name=f"defer:{entry}", harness="rv.props.c05:h_run",
                        params=dict(entry=entry, N=2 if q else 3, kinds=["exc", "res"], classes=["TRANSIENT"],
                                    max_attempts=N + 1, timed=True, handler=True, strat=dict(raw="any")),
                        max_wall_s=wall, weight=2))
    return out
