"""C14 Event stream explains every run: retry* then exactly one terminal event."""
from rv.world import World, summarize, segments, BASE_KINDS
from redress import StopReason, AbortRetryError, RetryExhaustedError, ErrorClass

META = dict(
    level="model_checking",
    bounds=dict(
        quick="whole runs, Retry/AsyncRetry/Policy call+execute with on_metric + on_log (+ capture_timeline for execute): "
              "N=3 attempts over success, {TRANSIENT, PERMANENT} x {exception (distinct type per attempt), result}, "
              "AbortRetryError; symbolic max_attempts, TRANSIENT limit, abort_if answers, handler decisions, budget; timed "
              "job with post-sleep deadline stop; a job whose sleep handler takes a solver-real time (deadline may pass while "
              "it decides); policy-level job: 3 calls through Policy/AsyncPolicy sharing a real "
              "breaker (threshold 1) with symbolic outcomes and clock advances (breaker events carry attempt 0 + state)",
        thorough="N=4; 4 policy calls",
    ),
    assumptions=["runs that end by a cancellation-type exception are outside the statement ('ends normally')",
                 "the log hook's extra retry_after_s field on retry events is ignored"],
    outside=["attempt_timeout_s", "contrib.otel / metrics.py adapters"],
)
GOALS = ["retry_then_success", "terminal_failure_exc", "terminal_failure_res", "terminal_scheduled", "terminal_aborted",
         "timeline_equal", "stale_err_candidate", "breaker_opened_event", "breaker_rejected_event",
         "breaker_half_open_event", "breaker_closed_event"]
TERMINALS = {"success", "permanent_fail", "deadline_exceeded", "max_attempts_exceeded", "max_unknown_attempts_exceeded",
             "no_strategy_configured", "budget_exhausted", "scheduled", "aborted"}
BREAKER_EVENTS = {"circuit_opened", "circuit_half_open", "circuit_closed", "circuit_rejected"}
OPNAME = "op-under-test"


def h_run(sym, params):
    w = World(sym, params)
    w.run(params["entry"], capture_timeline=params["entry"].endswith("execute"))
    return check_stream(w, w.trace, w.result, sym)


def check_stream(w, trace, result, sym):
    info = summarize(w, trace)
    fin = info["final"]
    if fin is not None and (fin["kind"] in BASE_KINDS or fin["kind"] == "nested_exhausted"):
        return None  # does not end normally
    kind, out = result
    metrics = [e for e in trace if e[0] == "metric" and e[1] not in BREAKER_EVENTS]
    logs = [e for e in trace if e[0] == "log" and e[1] not in BREAKER_EVENTS]
    # 1. same sequence on every sink
    if len(metrics) != len(logs):
        return ("sinks_differ", f"{len(metrics)} metric events vs {len(logs)} log events")
    for m, l in zip(metrics, logs):
        _, ev, att, sl, tags = m
        fields = dict(l[2])
        fields.pop("retry_after_s", None)
        if l[1] != ev or fields != {"attempt": att, "sleep_s": sl, **tags}:
            return ("sinks_differ", f"metric {m[1:]} vs log {l[1:]}")
    if kind == "outcome" and out.timeline is not None:
        tl = out.timeline.events
        if len(tl) != len(metrics):
            return ("timeline_differs", f"{len(tl)} timeline events vs {len(metrics)} metric events")
        for m, t in zip(metrics, tl):
            _, ev, att, sl, tags = m
            exp = (att, ev, sl, ErrorClass[tags["class"]] if "class" in tags else None,
                   StopReason(tags["stop_reason"]) if "stop_reason" in tags else None, tags.get("cause"))
            got = (t.attempt, t.event, t.sleep_s, t.error_class, t.stop_reason, t.cause)
            if exp != got:
                return ("timeline_differs", f"timeline {got} vs metric {exp}")
        sym.cover("timeline_equal", len(tl) >= 2)
    # 2. retry* terminal
    if not metrics:
        return ("no_events", "run ended normally without any event")
    for j, m in enumerate(metrics[:-1]):
        if m[1] != "retry":
            return ("shape", f"event #{j + 1} of {len(metrics)} is '{m[1]}', expected `retry` (stream {[x[1] for x in metrics]})")
    term = metrics[-1]
    if term[1] not in TERMINALS:
        return ("shape", f"stream ends with '{term[1]}' (stream {[x[1] for x in metrics]})")
    for m in metrics:
        if m[4].get("operation") != OPNAME:
            return ("operation_tag", f"event {m[1]} lacks the operation tag: {m[4]}")
    sleeps = info["sleeps"]
    retries = metrics[:-1]
    for j, m in enumerate(retries):
        if m[2] != j + 1:
            return ("retry_attempt", f"{j + 1}-th retry event has attempt={m[2]}")
    # each retry's sleep_s is the delay applied: the sleeper calls, in order, are a prefix-compatible subsequence
    si = 0
    for j, m in enumerate(retries):
        seg_evs = info["segs"][j][1] if j < len(info["segs"]) else []
        for e in seg_evs:
            if e[0] == "sleep" and e[1] != m[3]:
                return ("retry_sleep_s", f"retry event {j + 1} reports sleep_s={m[3]} but the sleeper got {e[1]}")
    # 3. terminal event describes the delivered result
    tags = term[4]
    if fin is not None and fin["kind"] == "ok" and not info["aborted"]:
        if term[1] != "success":
            return ("terminal", f"successful run ends with event '{term[1]}'")
        if len(retries) != info["nops"] - 1:
            return ("retry_count", f"{len(retries)} retry events for {info['nops']} attempts")
        sym.cover("retry_then_success", len(retries) >= 1)
        return None
    if term[1] == "success":
        return ("terminal", "failed/aborted run ends with `success`")
    if "stop_reason" not in tags:
        return ("terminal_tags", f"terminal event {term[1]} has no stop_reason tag: {tags}")
    delivered = None
    if kind == "outcome":
        delivered = out.stop_reason
    elif isinstance(out, AbortRetryError):
        delivered = StopReason.ABORTED
    elif isinstance(out, RetryExhaustedError):
        delivered = out.stop_reason
    if delivered is not None and tags["stop_reason"] != delivered.value:
        return ("terminal_stop_reason", f"terminal event says {tags['stop_reason']}, caller got {delivered.value}")
    if info["aborted"]:
        if tags["stop_reason"] != "ABORTED":
            return ("terminal_stop_reason", f"aborted run's terminal event says {tags['stop_reason']}")
        extra = set(tags) - {"stop_reason", "operation"}
        if extra:
            return ("abort_tags", f"abort event carries {sorted(extra)}")
        sym.cover("terminal_aborted")
        return None
    exp_cause = "exception" if fin["kind"] == "exc" else "result"
    if tags.get("class") != fin["klass"].name or tags.get("cause") != exp_cause:
        return ("terminal_tags", f"terminal tags {tags} do not describe the final failure ({fin['klass'].name}, {exp_cause})")
    if fin["kind"] == "exc":
        if tags.get("err") != type(fin["obj"]).__name__:
            return ("terminal_err", f"err tag {tags.get('err')!r}, final exception type {type(fin['obj']).__name__}")
        sym.cover("terminal_failure_exc")
    else:
        if "err" in tags:
            return ("terminal_err", f"err tag {tags['err']!r} on a result-caused stop (no exception in the final attempt)")
        sym.cover("terminal_failure_res")
        if any(w.objs[s[0][1]][0] == "exc" for s in info["segs"][:-1]):
            sym.cover("stale_err_candidate")
    if info["deferred"]:
        sym.cover("terminal_scheduled")
    # a retry may be granted and then not taken (deferral, abort, deadline passing during the sleep)
    if not (info["nops"] - 1 <= len(retries) <= info["nops"]):
        return ("retry_count", f"{len(retries)} retry events for {info['nops']} attempts")
    return None


def h_policy(sym, params):
    """Breaker transitions and rejections are reported with attempt 0 and the breaker's state."""
    from rv import env
    from redress import Policy, AsyncPolicy, Retry, AsyncRetry, CircuitBreaker, CircuitOpenError
    from rv.world import Fail, EC

    is_async = params["async"]
    clock = env.Clock(0)
    events = []
    with env.patched(clock):
        br = CircuitBreaker(failure_threshold=1, window_s=100, recovery_timeout_s=10, clock=lambda: clock.now)
        mk = (AsyncRetry if is_async else Retry)
        pol = (AsyncPolicy if is_async else Policy)(
            retry=mk(classifier=lambda e: EC.TRANSIENT, strategy=lambda c: 0.0, max_attempts=1), circuit_breaker=br)
        for c in range(params["calls"]):
            clock.now = clock.now + sym.choice(f"adv{c}", [0, 10])
            fail = sym.bool(f"fail{c}")
            meth = sym.choice(f"meth{c}", ["call", "execute"])
            pre_state = br.state
            ev = []
            events.append(ev)

            def op():
                if fail:
                    raise Fail(c, EC.TRANSIENT)
                return 1

            async def aop():
                await env.Suspend()
                return op()
            kw = dict(on_metric=lambda e, a, s, t: ev.append(("m", e, a, s, dict(t))),
                      on_log=lambda e, f: ev.append(("l", e, dict(f))), operation=OPNAME)
            try:
                if is_async:
                    env.drive(getattr(pol, meth)(aop, **kw))
                else:
                    getattr(pol, meth)(op, **kw)
            except (Fail, CircuitOpenError):
                pass
            post_state = br.state
            bm = [e for e in ev if e[0] == "m" and e[1] in BREAKER_EVENTS]
            bl = [e for e in ev if e[0] == "l" and e[1] in BREAKER_EVENTS]
            if len(bm) != len(bl):
                return ("breaker_sinks_differ", f"{bm} vs {bl}")
            for m, l in zip(bm, bl):
                if m[2] != 0 or m[3] != 0.0 or l[2].get("attempt") != 0:
                    return ("breaker_attempt", f"breaker event {m[1]} reported with attempt={m[2]} sleep_s={m[3]}")
                if m[1] != l[1] or {k: v for k, v in l[2].items() if k not in ("attempt", "sleep_s")} != m[4]:
                    return ("breaker_sinks_differ", f"{m} vs {l}")
                if m[4].get("operation") != OPNAME:
                    return ("breaker_operation", f"{m}")
            names = [m[1] for m in bm]
            exp = []
            from redress import CircuitState as CS
            if pre_state is CS.OPEN:
                # admitted only when the timeout elapsed: the breaker decides; derive from what happened
                pass
            # every transition must be reported with the state reached
            for m in bm:
                want = {"circuit_opened": "open", "circuit_half_open": "half_open", "circuit_closed": "closed"}.get(m[1])
                if want is not None and m[4].get("state") != want:
                    return ("breaker_state_tag", f"{m[1]} reported with state {m[4].get('state')}")
                if m[1] == "circuit_rejected" and m[4].get("state") not in ("open", "half_open"):
                    return ("breaker_state_tag", f"rejection reported with state {m[4].get('state')}")
                sym.cover({"circuit_opened": "breaker_opened_event", "circuit_rejected": "breaker_rejected_event",
                           "circuit_half_open": "breaker_half_open_event", "circuit_closed": "breaker_closed_event"}[m[1]])
            # transitions that happened must have been reported
            if pre_state is not CS.OPEN and post_state is CS.OPEN and "circuit_opened" not in names:
                return ("breaker_missing_event", f"breaker went {pre_state.value}->open without circuit_opened (events {names})")
            if pre_state is CS.OPEN and post_state is CS.CLOSED and names != ["circuit_half_open", "circuit_closed"]:
                return ("breaker_missing_event", f"open->closed reported as {names}")
            if pre_state is CS.OPEN and post_state is CS.OPEN and names not in (["circuit_rejected"], ["circuit_half_open", "circuit_opened"]):
                return ("breaker_missing_event", f"open->open reported as {names}")
    return None


def jobs(tier):
    q = tier == "quick"
    N = 3 if q else 4
    out = []
    kinds = ["ok", "exc", "res", "abort_exc"]
    wall = 600 if q else 3000
    for entry in ["retry.call", "retry.execute", "aretry.call", "aretry.execute", "policy.execute", "apolicy.call"]:
        for o1 in range(len(kinds)):
            out.append(dict(name=f"run:{entry}:o1={kinds[o1]}", harness="rv.props.c14:h_run",
                            params=dict(entry=entry, N=N, kinds=kinds, classes=["TRANSIENT", "PERMANENT"],
                                        limits=["TRANSIENT"], handler=True, abort=True, budget="sym", operation=OPNAME,
                                        pin={"o1": o1}),
                            max_wall_s=wall, weight=3 if o1 in (1, 2) else 1))
        out.append(dict(name=f"timed:{entry}", harness="rv.props.c14:h_run",
                        params=dict(entry=entry, N=2 if q else 3, kinds=["ok", "exc", "res"], classes=["TRANSIENT"],
                                    timed=True, strat=dict(raw="real"), operation=OPNAME),
                        max_wall_s=wall, weight=2))
    # hooks handed over as falsy callable objects: every sink must still receive the stream
    for entry in ["retry.execute", "aretry.execute", "policy.call"]:
        out.append(dict(name=f"falsy:{entry}", harness="rv.props.c14:h_run",
                        params=dict(entry=entry, N=2, kinds=kinds, classes=["TRANSIENT", "PERMANENT"], handler=True,
                                    operation=OPNAME, falsy=True), max_wall_s=wall, weight=2))
    # a sleep handler that takes time: the deadline may pass while it decides; still exactly one terminal event
    for entry in ["retry.call", "retry.execute", "aretry.call", "aretry.execute"]:
        out.append(dict(name=f"slow_handler:{entry}", harness="rv.props.c14:h_run",
                        params=dict(entry=entry, N=2 if q else 3, kinds=["exc", "res"], classes=["TRANSIENT"], timed=True,
                                    handler=True, handler_time=True, strat=dict(raw="real"), operation=OPNAME),
                        max_wall_s=wall, weight=2))
    for a in (False, True):
        out.append(dict(name=f"policy:{'async' if a else 'sync'}", harness="rv.props.c14:h_policy",
                        params={"async": a, "calls": 3 if q else 4}, max_wall_s=wall, weight=2))
    return out
