"""C07 Open breaker fails fast; recovery admits exactly one probe."""
import asyncio

from rv import env
from rv.props.c06 import RefBreaker
from rv.world import EC, Fail, Res, SpyBreaker
from redress import (PermanentError, AsyncPolicy, AsyncRetry, CircuitBreaker, CircuitOpenError, Policy, Retry, AbortRetryError)

META = dict(
    level="model_checking",
    bounds=dict(
        quick="histories of 3 policy calls sharing one real CircuitBreaker (failure_threshold in [1,2], window/recovery "
              "solver reals), each call solver-chosen among Policy.call / Policy.execute / AsyncPolicy.call / "
              "AsyncPolicy.execute (job: with a one-attempt retry component, or without retry), operation outcome in "
              "{value, TRANSIENT failure (counted), PERMANENT failure (not counted)}, solver-real clock advance before each "
              "call; compared step by step with the reference breaker of "
              "C06; direct breaker histories of 3 operations (C06's harness); async race: 2 concurrent AsyncPolicy.call coroutines plus a third call started later on a breaker "
              "whose recovery timeout has elapsed, resumed in every solver-chosen order",
        thorough="4 calls; 3 calls with a direct breaker operation (record_failure / allow+cancel) after each; direct histories K=4; 3 concurrent coroutines",
    ),
    assumptions=["floats as reals", "the breaker-level transition table is decided by C06's history harness (same reference)",
                 "race harness: calls are AsyncPolicy.call with a retry component; suspension points = awaits of the operation"],
    outside=["threads (C17)", "late results of calls admitted before the breaker tripped (the breaker keeps no call identity)"],
)
GOALS = ["rejected_while_open", "probe_admitted_after_timeout", "probe_success_closes", "probe_failure_reopens",
         "rejection_not_counted", "closed_with_empty_history", "race_second_rejected", "race_probe_recorded_then_admitted",
         "execute_rejection_outcome"]
KINDS = ["pc", "pe", "ac", "ae"]


def h_policy(sym, params):
    thr = sym.int("thr", 1, 2)
    window = sym.real("window", lo=0)
    recovery = sym.real("recovery", lo=0)
    sym.assume(window > 0)
    sym.assume(recovery > 0)
    clock = env.Clock(sym.real("t0", lo=0))
    with_retry = params["retry"]
    ref = RefBreaker(thr, {}, {EC.TRANSIENT, EC.SERVER_ERROR}, window, recovery)
    invoked = [0]
    cur = {}

    def body():
        invoked[0] += 1
        k = cur["outcome"]
        if k == "ok":
            return Res(0, None)
        if with_retry:
            raise Fail(0, EC.TRANSIENT if k == "fail_T" else EC.PERMANENT)
        # without a retry component the breaker classifies with default_classifier: use its marker types
        raise (TimeoutError("t") if k == "fail_T" else PermanentError("p"))

    async def abody():
        await env.Suspend()
        return body()
    clf = lambda e: getattr(e, "klass", EC.UNKNOWN)  # noqa
    with env.patched(clock):
        br = CircuitBreaker(failure_threshold=thr, window_s=window, recovery_timeout_s=recovery, clock=lambda: clock.now)
        sp = Policy(retry=Retry(classifier=clf, strategy=lambda c: 0.0, max_attempts=1) if with_retry else None,
                    circuit_breaker=br)
        ap = AsyncPolicy(retry=AsyncRetry(classifier=clf, strategy=lambda c: 0.0, max_attempts=1) if with_retry else None,
                         circuit_breaker=br)
        was_reopened = False
        for c in range(params["calls"]):
            clock.now = clock.now + sym.real(f"adv{c}", lo=0)
            pk = params.get("pin_call0")
            if c == 0 and pk is not None:
                which = KINDS[pk]
            else:
                which = sym.choice(f"call{c}", params.get("kinds_later", KINDS) if c else KINDS)
            if c == 0 and "pin_out0" in params:
                cur["outcome"] = ["ok", "fail_T", "fail_P"][params["pin_out0"]]
            else:
                cur["outcome"] = sym.choice(f"out{c}", ["ok", "fail_T", "fail_P"])
            now = clock.now
            exp_allowed, exp_state, _ev = ref.allow(now)
            before = invoked[0]
            try:
                if which == "pc":
                    r = ("return", sp.call(body))
                elif which == "pe":
                    r = ("outcome", sp.execute(body))
                elif which == "ac":
                    r = ("return", env.drive(ap.call(abody)))
                else:
                    r = ("outcome", env.drive(ap.execute(abody)))
            except (Fail, CircuitOpenError, TimeoutError, PermanentError) as e:
                r = ("raise", e)
            ran = invoked[0] - before
            if not exp_allowed:
                if ran:
                    return ("op_invoked_while_open", f"call {c} ({which}): operation invoked although the breaker is {exp_state} "
                                                     f"and the recovery timeout has not elapsed / a probe is in flight")
                if r[0] == "raise":
                    rej = isinstance(r[1], CircuitOpenError)
                elif r[0] == "outcome":
                    o = r[1]
                    rej = (not o.ok) and o.attempts == 0 and isinstance(o.last_exception, CircuitOpenError)
                    sym.cover("execute_rejection_outcome")
                else:
                    rej = False
                if not rej:
                    return ("not_rejected", f"call {c} ({which}) while open returned {r}")
                sym.cover("rejected_while_open")
            else:
                if ran != 1:
                    return ("admitted_call_not_run", f"call {c} ({which}): reference admits the call but the operation ran {ran} times ({r})")
                pre = ref.state
                if cur["outcome"] == "ok":
                    ev = ref.success(now)
                    if ev == "circuit_closed":
                        sym.cover("probe_success_closes")
                else:
                    k = EC.TRANSIENT if cur["outcome"] == "fail_T" else EC.PERMANENT
                    ev = ref.fail(k, now)
                    if pre == "half_open":
                        sym.cover("probe_failure_reopens")
                        was_reopened = True
                if pre == "half_open":
                    sym.cover("probe_admitted_after_timeout")
            if br.state.value != ref.state:
                return ("state_differs", f"after call {c} ({which}, {cur['outcome']}): breaker {br.state.value}, reference {ref.state}")
            if not exp_allowed:
                sym.cover("rejection_not_counted")
            if ref.state == "closed" and not ref.hist and c >= 2:
                sym.cover("closed_with_empty_history")
            # optional direct breaker operation between policy calls
            d = sym.choice(f"direct{c}", ["none", "fail_T", "allow"]) if params.get("direct") else "none"
            if d == "fail_T":
                if br.record_failure(EC.TRANSIENT) != ref.fail(EC.TRANSIENT, clock.now):
                    return ("direct_step", "direct record_failure disagrees with the reference")
            elif d == "allow":
                a = br.allow()
                if (a.allowed, a.state.value, a.event) != ref.allow(clock.now):
                    return ("direct_step", "direct allow disagrees with the reference")
                if a.allowed and a.state.value == "half_open":
                    br.record_cancel()
                    ref.cancel(clock.now)
    return None


def h_race(sym, params):
    """Concurrent AsyncPolicy.call coroutines on a breaker whose recovery timeout has elapsed."""
    n = params["n"]
    clock = env.Clock(0)

    class W:
        def __init__(self):
            self.trace = []

        def t(self, ev):
            self.trace.append(ev)
    w = W()
    outcomes = [sym.choice(f"out{i}", ["ok", "fail"]) for i in range(n)]
    started = []

    def mk(i):
        async def aop():
            started.append(i)
            w.t(("op_start", i))
            await env.Suspend()
            w.t(("op_end", i))
            if outcomes[i] == "fail":
                raise Fail(i, EC.TRANSIENT)
            return i
        return aop
    with env.patched(clock):
        inner = CircuitBreaker(failure_threshold=1, window_s=100.0, recovery_timeout_s=5.0, clock=lambda: clock.now)
        inner.record_failure(EC.TRANSIENT)
        clock.now = 6.0
        br = SpyBreaker(w, inner)
        pol = AsyncPolicy(retry=AsyncRetry(classifier=lambda e: EC.TRANSIENT, strategy=lambda c: 0.0, max_attempts=1),
                          circuit_breaker=br)
        nr = AsyncPolicy(circuit_breaker=br)  # a policy without retry sharing the breaker
        coros = []
        for i in range(n):
            if params.get("preflight_abort") and i == n - 1:
                coros.append(nr.call(mk(i), abort_if=lambda: True))
            else:
                coros.append(pol.call(mk(i)))
        done = [False] * n
        step = 0
        while not all(done):
            live = [i for i in range(n) if not done[i]]
            i = live[0] if len(live) == 1 else sym.choice(f"sched{step}", live)
            step += 1
            try:
                coros[i].send(None)
            except StopIteration:
                done[i] = True
            except (Fail, CircuitOpenError, AbortRetryError):
                done[i] = True
    # at most one call is admitted as probe until its result is recorded
    in_flight = None
    for ev in w.trace:
        if ev[0] == "br.allow" and ev[1]:
            if in_flight is not None:
                return ("two_probes" + (":preflight_abort" if params.get("preflight_abort") else ""),
                        f"a second call was admitted while the half-open probe was still in flight: {w.trace}")
            if ev[2] == "half_open":
                in_flight = True
        elif ev[0] == "br.allow" and not ev[1]:
            if in_flight:
                sym.cover("race_second_rejected")
        elif ev[0] in ("br.success", "br.failure"):
            if in_flight:
                sym.cover("race_probe_recorded_then_admitted", len(started) >= 2)
            in_flight = None
        elif ev[0] == "br.cancel":
            # a cancel is a record only for the call that holds the probe; an un-admitted call must not release it
            pass
    return None


def jobs(tier):
    q = tier == "quick"
    out = []
    wall = 600 if q else 3000
    calls = 3 if q else 4
    OUTS = ["ok", "fail_T", "fail_P"]
    for retry in (True, False):
        for c0 in range(4):
            if q:
                out.append(dict(name=f"policy:retry={retry}:call0={KINDS[c0]}", harness="rv.props.c07:h_policy",
                                params=dict(retry=retry, calls=3, direct=False, pin_call0=c0, kinds_later=KINDS),
                                max_wall_s=wall, weight=3))
            else:
                # 3 calls with a direct breaker operation after each call
                for o0 in range(3):
                    out.append(dict(name=f"policy+direct:retry={retry}:call0={KINDS[c0]}:{OUTS[o0]}", harness="rv.props.c07:h_policy",
                                    params=dict(retry=retry, calls=3, direct=True, pin_call0=c0, pin_out0=o0, kinds_later=KINDS),
                                    max_wall_s=wall, weight=6))
                # 4 calls, split by the first call's kind and outcome
                for o0 in range(3):
                    out.append(dict(name=f"policy4:retry={retry}:call0={KINDS[c0]}:{OUTS[o0]}", harness="rv.props.c07:h_policy",
                                    params=dict(retry=retry, calls=4, direct=False, pin_call0=c0, pin_out0=o0, kinds_later=KINDS),
                                    max_wall_s=wall, weight=5))
    # breaker-level transition table (direct operations), same reference as C06
    from rv.props.c06 import OPS
    for a in range(len(OPS)):
        out.append(dict(name=f"direct:K={3 if q else 4}:{OPS[a]}", harness="rv.props.c06:h_hist",
                        params=dict(K=3 if q else 4, pin_ops=[a]), max_wall_s=wall, weight=2))
    out.append(dict(name="race:n=2", harness="rv.props.c07:h_race", params=dict(n=2), max_wall_s=wall))
    out.append(dict(name="race:n=3", harness="rv.props.c07:h_race", params=dict(n=3), max_wall_s=wall, weight=2))
    out.append(dict(name="race:n=3:preflight_abort", harness="rv.props.c07:h_race", params=dict(n=3, preflight_abort=True),
                    max_wall_s=wall, weight=2))
    return out
