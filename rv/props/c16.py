"""C16 Sleep-handler protocol: SLEEP sleeps, DEFER schedules, ABORT aborts."""
from rv.world import World, segments
from redress import SleepDecision, StopReason, AbortRetryError, RetryExhaustedError

META = dict(
    level="model_checking",
    bounds=dict(
        quick="whole runs, Retry/AsyncRetry call+execute (+Policy sugar): N=3 TRANSIENT failures (exception or result) or "
              "success per attempt; per retry a solver-chosen handler decision; six solver booleans place handler / "
              "before_sleep / sleeper at policy level and/or call level (each level has its own spy); async: sync or "
              "`async def` before_sleep and sleeper variants; no sleeper given => the default time.sleep/asyncio.sleep "
              "(intercepted by the virtual clock); a variant in which every callback is a falsy callable object; timed variant (N=2) in which the handler itself takes a solver-chosen "
              "time, so the deadline can pass while it decides",
        thorough="N=4",
    ),
    assumptions=["frozen clock, max_attempts = N+1, no budget/abort_if (C03 covers their interplay)",
                 "a granted retry is identified by the `retry` event; its sleep_s is the computed delay"],
    outside=["attempt_timeout_s"],
)
GOALS = ["defer_past_deadline", "sleep_then_attempt", "defer", "abort", "call_overrides_policy_handler", "call_overrides_policy_sleeper",
         "no_handler_sleeps", "default_sleeper", "policy_level_only", "before_sleep_called"]


def h_run(sym, params):
    w = World(sym, params)
    w.run(params["entry"])
    return check_protocol(w, w.trace, w.result, sym)


def check_protocol(w, trace, result, sym):
    pl = w.place
    eff_h = "call" if pl["h_call"] else ("policy" if pl["h_pol"] else None)
    eff_b = "call" if pl["b_call"] else ("policy" if pl["b_pol"] else None)
    eff_s = "call" if pl["s_call"] else ("policy" if pl["s_pol"] else "default")
    _pre, segs = segments(trace)
    kind, out = result
    for idx, (op, evs) in enumerate(segs):
        followed = idx + 1 < len(segs)
        retry = [e for e in evs if e[0] == "metric" and e[1] == "retry"]
        hs = [e for e in evs if e[0] == "handler"]
        bs = [e for e in evs if e[0] == "before_sleep"]
        ss = [e for e in evs if e[0] == "sleep"]
        for e in hs:
            if e[5] != eff_h:
                return ("wrong_level:handler", f"{e[5]}-level handler called; effective level is {eff_h}")
        for e in bs:
            if e[3] != eff_b:
                return ("wrong_level:before_sleep", f"{e[3]}-level before_sleep called; effective level is {eff_b}")
        for e in ss:
            if e[3] != eff_s:
                return ("wrong_level:sleeper", f"{e[3]}-level sleeper called; effective is {eff_s}")
        if not retry:
            if hs or bs or ss:
                return ("no_retry_granted", "handler/before_sleep/sleeper used although no retry was granted")
            continue
        if len(retry) != 1:
            return ("retry_events", f"{len(retry)} retry events after one attempt")
        delay = retry[0][3]
        att = retry[0][2]
        if eff_h is not None:
            if len(hs) != 1:
                return ("handler_count", f"handler consulted {len(hs)} times for one granted retry")
            h = hs[0]
            if h[1] != att or h[2] != delay:
                return ("handler_args", f"handler got (attempt={h[1]}, s={h[2]}), expected ({att}, {delay})")
            dec = h[3]
        else:
            if hs:
                return ("handler_count", "handler called although none is configured")
            dec = SleepDecision.SLEEP
            sym.cover("no_handler_sleeps")
        if dec is SleepDecision.SLEEP:
            if eff_b is not None:
                if len(bs) != 1 or bs[0][2] != delay or bs[0][1] != att:
                    return ("before_sleep", f"before_sleep calls {[(b[1], b[2]) for b in bs]}, expected one ({att}, {delay})")
                sym.cover("before_sleep_called")
            elif bs:
                return ("before_sleep", "before_sleep called although none configured")
            if len(ss) != 1 or ss[0][1] != delay:
                return ("sleeper", f"sleeper calls {[x[1] for x in ss]}, expected exactly one with {delay}")
            if eff_b is not None and evs.index(bs[0]) > evs.index(ss[0]):
                return ("order", "before_sleep ran after the sleeper")
            if eff_h is not None and evs.index(hs[0]) > evs.index(ss[0]):
                return ("order", "handler consulted after the sleeper")
            if not followed:
                t0 = next(e[2] for e in trace if e[0] == "begin")
                t_end = next(e[1] for e in trace if e[0] == "end")
                if not (w.timed and t_end - t0 > w.deadline):  # C02: no attempt once the deadline has passed
                    return ("no_attempt_after_sleep", f"SLEEP after attempt {att} was not followed by another attempt")
            sym.cover("sleep_then_attempt")
            if eff_s == "default":
                sym.cover("default_sleeper")
            if pl["h_call"] and pl["h_pol"]:
                sym.cover("call_overrides_policy_handler")
            if pl["s_call"] and pl["s_pol"]:
                sym.cover("call_overrides_policy_sleeper")
            if eff_h == "policy" or eff_s == "policy":
                sym.cover("policy_level_only")
        else:
            if bs or ss:
                return ("slept_on_" + dec.value, f"{dec.value}: before_sleep/sleeper still called")
            if followed:
                return ("attempt_after_" + dec.value, f"{dec.value}: another attempt was made")
            if dec is SleepDecision.DEFER:
                ok = (kind == "outcome" and out.stop_reason is StopReason.SCHEDULED and out.next_sleep_s == delay and not out.ok) or \
                     (kind == "raise" and isinstance(out, RetryExhaustedError) and out.stop_reason is StopReason.SCHEDULED
                      and out.next_sleep_s == delay)
                if not ok:
                    return ("defer_result", f"DEFER with delay {delay} ended as {kind} {out!r}")
                sym.cover("defer")
                if w.timed:
                    t0 = next(e[2] for e in trace if e[0] == "begin")
                    sym.cover("defer_past_deadline", next(e[1] for e in trace if e[0] == "end") - t0 > w.deadline)
            else:
                ok = (kind == "outcome" and out.stop_reason is StopReason.ABORTED and not out.ok) or \
                     (kind == "raise" and isinstance(out, AbortRetryError))
                if not ok:
                    return ("abort_result", f"ABORT ended as {kind} {out!r}")
                sym.cover("abort")
    return None


def jobs(tier):
    q = tier == "quick"
    N = 3 if q else 4
    out = []
    entries = ["retry.call", "retry.execute", "aretry.call", "aretry.execute"] + ([] if q else ["policy.call", "apolicy.execute", "rp.execute", "arp.call"])
    for entry in entries:
        for o1 in (1, 2):
            for hp in (False, True):
                out.append(dict(name=f"run:{entry}:o1={o1}:h_call={hp}", harness="rv.props.c16:h_run",
                                params=dict(entry=entry, N=N, kinds=["ok", "exc", "res"], classes=["TRANSIENT"],
                                            max_attempts=N + 1, place=True, async_variants=entry.startswith("a"),
                                            pin={"o1": o1}, pin_place={"h_call": hp}),
                                max_wall_s=600 if q else 3000, weight=2))
    # callbacks handed over as falsy callable objects (legal: only `None` means "not given")
    for entry in entries[:4]:
        out.append(dict(name=f"falsy:{entry}", harness="rv.props.c16:h_run",
                        params=dict(entry=entry, N=2, kinds=["ok", "exc", "res"], classes=["TRANSIENT"], max_attempts=3,
                                    place=True, async_variants=entry.startswith("a"), falsy=True), max_wall_s=600 if q else 3000,
                        weight=2))
    # handlers that take time: the decision must still be honoured when the deadline passes meanwhile
    for entry in entries[:4]:
        out.append(dict(name=f"timed:{entry}", harness="rv.props.c16:h_run",
                        params=dict(entry=entry, N=2 if q else 3, kinds=["exc", "res"], classes=["TRANSIENT"],
                                    max_attempts=N + 1, place=True, pin_place={"h_call": True, "h_pol": False, "b_pol": False,
                                                                               "b_call": False, "s_pol": False, "s_call": True},
                                    timed=True, handler_time=True, strat=dict(raw="real")),
                        max_wall_s=600 if q else 3000, weight=2))
    return out
