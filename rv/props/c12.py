"""C12 All entry points agree: sync/async, call/execute, Policy/Retry/sugar."""
from rv.engine import CachingSym
from rv.props.c15 import norm
from rv.world import World, SpyBreaker, EC, Fail, Res, BASE_KINDS
from redress import AbortRetryError, RetryExhaustedError, CircuitBreaker, StopReason

META = dict(
    level="model_checking",
    level_text="Differential bounded symbolic model checking inside one path: the same solver-chosen world (configuration, "
               "outcome script, timings, callback answers) is run through a reference entry point and through another "
               "entry point of the real library; the normalised observable traces must be equal and the delivered "
               "results must correspond. The second run adds no paths because its branches are implied by the first.",
    bounds=dict(
        quick="reference Retry.call vs each of Retry.execute, AsyncRetry.call/execute, Policy.call/execute, AsyncPolicy.call/"
              "execute, RetryPolicy.call/execute, AsyncRetryPolicy.call/execute at N=3 (world: success, {TRANSIENT, "
              "PERMANENT} x {exception, result}, AbortRetryError, CancelledError; symbolic max_attempts, abort_if answers, "
              "handler decisions, budget tokens, before_sleep) and vs Retry.context, AsyncRetry.context, Policy.context, "
              "AsyncPolicy.context, @retry on a sync and an async function at N=2; forwarding jobs (N=2): every sugar layer incl. "
              "the four from_config constructors, with classes {TRANSIENT, UNKNOWN}, TRANSIENT limit, UNKNOWN cap, budget, "
              "abort_if, and handler / before_sleep / sleeper placed at policy level and/or call level by six solver "
              "booleans, plus a timed variant (symbolic deadline, durations, raw delays); timed world (symbolic durations, "
              "overshoots, deadline, raw delays) for the four runner twins at N=2; with a half-open-eligible breaker behind "
              "a spy: Policy.call vs Policy.execute, AsyncPolicy.call, AsyncPolicy.execute at N=2",
        thorough="N=4 / N=3 / N=3 / N=3",
    ),
    assumptions=["abort_if consultations are not compared (poll placement is C13's subject; the statement lists invocations, "
                 "strategy calls, sleeps, events, breaker and budget interactions)",
                 "classifier invocations are not compared (Policy.call classifies the final exception once more for the "
                 "breaker; the statement does not list classifier calls)",
                 "attempt hooks (on_attempt_start/end) are not part of the compared trace (the statement lists invocations, "
                 "strategy calls, sleeps, events, breaker and budget interactions)",
                 "objects created per run differ; results are compared by attempt index, type and fields"],
    outside=["attempt_timeout_s", "RetryConfig/from_config constructors", "testing helpers"],
)
GOALS = ["pair_equal_with_retry", "pair_equal_deferred", "pair_equal_aborted", "pair_equal_exhausted_result",
         "pair_equal_raise_exception", "breaker_events_equal", "cancel_propagated_both", "rejected_both"]


def canon(w):
    kind, o = w.result
    nops = len([e for e in w.trace if e[0] == "op"])
    term_sr = None
    for ev in reversed(w.trace):
        if ev[0] == "metric" and "stop_reason" in ev[4]:
            term_sr = StopReason(ev[4]["stop_reason"])
            break

    def ident(exc, res):
        if exc is not None:
            return ("exc", getattr(exc, "i", type(exc).__name__))
        if res is not None:
            return ("res", getattr(res, "i", None))
        return None
    if kind == "return":
        return ("ok", getattr(o, "i", None))
    if kind == "outcome":
        if o.ok:
            return ("ok", getattr(o.value, "i", None))
        if o.stop_reason is StopReason.ABORTED:
            return ("aborted",)
        return ("stopped", o.stop_reason, o.attempts, o.last_class, ident(o.last_exception, o.last_result), o.next_sleep_s)
    if isinstance(o, AbortRetryError):
        return ("aborted",)
    if isinstance(o, RetryExhaustedError) and not any(w.objs[i][1] is o for i in w.objs):
        return ("stopped", o.stop_reason, o.attempts, o.last_class, ident(o.last_exception, o.last_result), o.next_sleep_s)
    if isinstance(o, Fail):
        return ("stopped", term_sr, nops, o.klass, ("exc", o.i), None)
    return ("propagated", type(o).__name__)


def run_once(csym, params, entry, with_breaker):
    w = World(csym, params)
    if params.get("end_hook_fault"):
        # the on_attempt_end hook raises at a solver-chosen invocation (also when it is told about a SUCCESS)
        w.fault = dict(site="attempt_end", exc=ValueError, at=csym.choice("end_hook_fault_at", [1, 2]))
    breaker = None
    if with_breaker:
        inner = CircuitBreaker(failure_threshold=1, window_s=100.0, recovery_timeout_s=5.0, clock=lambda: w.clock.now)
        inner.record_failure(EC.TRANSIENT)
        # "elapsed": the call is admitted as the half-open probe; "open": it is rejected (no breaker record at all)
        w.clock.now = w.clock.now + (6.0 if with_breaker != "open" else 1.0)
        breaker = SpyBreaker(w, inner)
    w.run(entry, breaker=breaker)
    return w


def h_pair(sym, params):
    csym = CachingSym(sym)
    wb = params.get("breaker", False)
    w1 = run_once(csym, params, params["ref"], wb)
    w2 = run_once(csym, params, params["entry"], wb)
    skip = ("begin", "attempt_start", "attempt_end", "classify", "rclassify", "poll")
    t1 = [norm(e) for e in w1.trace if e[0] not in skip]
    t2 = [norm(e) for e in w2.trace if e[0] not in skip]
    if t1 != t2:
        j = next((i for i, (a, b) in enumerate(zip(t1, t2)) if a != b), min(len(t1), len(t2)))
        return ("trace_differs", f"{params['ref']} vs {params['entry']}: traces diverge at event {j}: "
                                 f"{t1[j:j + 2]} vs {t2[j:j + 2]}")
    c1, c2 = canon(w1), canon(w2)
    if wb == "open":
        # call() delivers the rejection by raising CircuitOpenError, execute() by a not-ok outcome with zero attempts
        def rejected(w):
            k, o = w.result
            if k == "raise":
                return type(o).__name__ == "CircuitOpenError"
            return k == "outcome" and (not o.ok) and o.attempts == 0 and type(o.last_exception).__name__ == "CircuitOpenError"
        if not (rejected(w1) and rejected(w2)):
            return ("rejection_differs", f"{params['ref']} -> {w1.result}, {params['entry']} -> {w2.result}")
        sym.cover("rejected_both")
        return None
    if c1 != c2:
        return ("result_differs", f"{params['ref']} delivered {c1}, {params['entry']} delivered {c2}")
    nops = len([e for e in w1.trace if e[0] == "op"])
    sym.cover("pair_equal_with_retry", nops >= 2)
    if c1[0] == "aborted":
        sym.cover("pair_equal_aborted")
    elif c1[0] == "propagated":
        sym.cover("cancel_propagated_both")
    elif c1[0] == "stopped":
        if c1[1] is StopReason.SCHEDULED:
            sym.cover("pair_equal_deferred")
        elif c1[4] and c1[4][0] == "res":
            sym.cover("pair_equal_exhausted_result")
        else:
            sym.cover("pair_equal_raise_exception")
    if wb:
        sym.cover("breaker_events_equal", any(e[0] == "metric" and e[1].startswith("circuit_") for e in w1.trace))
    return None


def jobs(tier):
    q = tier == "quick"
    out = []
    wall = 600 if q else 3000
    kinds = ["ok", "exc", "res", "abort_exc", "cancelled"]
    base = dict(kinds=kinds, classes=["TRANSIENT", "PERMANENT"], handler=True, abort=True, budget="sym", before_sleep=True,
                operation="op")
    core = ["retry.execute", "aretry.call", "aretry.execute", "policy.call", "policy.execute", "apolicy.call",
            "apolicy.execute", "rp.call", "rp.execute", "arp.call", "arp.execute"]
    N = 3 if q else 4
    for entry in core:
        for o1 in (1, 2):
            out.append(dict(name=f"core:{entry}:o1={kinds[o1]}", harness="rv.props.c12:h_pair",
                            params=dict(base, N=N, ref="retry.call", entry=entry, pin={"o1": o1}), max_wall_s=wall, weight=3))
        out.append(dict(name=f"core:{entry}:o1=other", harness="rv.props.c12:h_pair",
                        params=dict(base, N=1, ref="retry.call", entry=entry), max_wall_s=wall, weight=1))
    N = 2 if q else 3
    for entry in ["retry.context", "aretry.context", "policy.context", "apolicy.context", "deco.call", "adeco.call"]:
        out.append(dict(name=f"sugar:{entry}", harness="rv.props.c12:h_pair",
                        params=dict(base, N=N, ref="retry.call", entry=entry), max_wall_s=wall, weight=2))
    # forwarding: every constructor / per-call argument must reach the runner through every sugar layer
    # (policy-level and call-level handler / before_sleep / sleeper, budget, caps, per-class limits, deadline)
    fwd = ["retry.execute", "aretry.call", "aretry.execute", "policy.call", "policy.execute", "apolicy.call",
           "apolicy.execute", "rp.call", "rp.execute", "arp.call", "arp.execute", "retry.context", "aretry.context",
           "policy.context", "apolicy.context", "retrycfg.call", "retrycfg.execute", "aretrycfg.call", "aretrycfg.execute",
           "rpcfg.call", "rpcfg.execute", "arpcfg.call", "arpcfg.execute"]
    for entry in fwd + ["deco.call", "adeco.call"]:
        deco = entry.startswith(("deco", "adeco"))
        # (i) placements of handler / before_sleep / sleeper at policy and call level
        out.append(dict(name=f"fwd-place:{entry}", harness="rv.props.c12:h_pair",
                        params=dict(N=N, kinds=["ok", "exc"], classes=["TRANSIENT"], place=True, operation="op", ref="retry.call",
                                    pin_place=({"h_call": False, "b_call": False, "s_call": False} if deco else {"b_pol": True}),
                                    entry=entry), max_wall_s=wall, weight=3))
        # (ii) caps, per-class limit, budget, abort_if, result classifier
        out.append(dict(name=f"fwd-caps:{entry}", harness="rv.props.c12:h_pair",
                        params=dict(N=N, kinds=["ok", "exc", "res"], classes=["TRANSIENT", "UNKNOWN"], limits=["TRANSIENT"],
                                    cap="sym", budget="sym", operation="op", abort=True, ref="retry.call", entry=entry),
                        max_wall_s=wall, weight=3))
        if entry in ("rp.call", "arp.execute"):  # the same through attribute assignment on the wrapper
            e2 = entry.replace("rp.", "rpset.").replace("arp.", "arpset.") if entry.startswith("rp.") else entry.replace("arp.", "arpset.")
            out.append(dict(name=f"fwd-caps:{e2}", harness="rv.props.c12:h_pair",
                            params=dict(N=N, kinds=["ok", "exc", "res"], classes=["TRANSIENT", "UNKNOWN"], limits=["TRANSIENT"],
                                        cap="sym", budget="sym", operation="op", abort=True, ref="retry.call", entry=e2),
                            max_wall_s=wall, weight=3))
        # (iii) deadline and strategy values
        out.append(dict(name=f"fwd-timed:{entry}", harness="rv.props.c12:h_pair",
                        params=dict(N=N, kinds=["exc", "res"], classes=["TRANSIENT"], timed=True, strat=dict(raw="real"),
                                    operation="op", ref="retry.call", entry=entry), max_wall_s=wall, weight=2))
    # a raising on_attempt_end hook (also on success): sync and async twins must still emit the same events
    for ref, entry in (("retry.call", "aretry.call"), ("retry.execute", "aretry.execute"), ("policy.call", "apolicy.call")):
        out.append(dict(name=f"end-hook-raises:{ref}~{entry}", harness="rv.props.c12:h_pair",
                        params=dict(N=2, kinds=["ok", "exc", "res"], classes=["TRANSIENT", "PERMANENT"], attempt_hooks=True,
                                    end_hook_fault=True, operation="op", ref=ref, entry=entry), max_wall_s=wall, weight=1))
    for entry in ["retry.execute", "aretry.call", "aretry.execute"]:
        out.append(dict(name=f"timed:{entry}", harness="rv.props.c12:h_pair",
                        params=dict(N=N, kinds=["ok", "exc", "res"], classes=["TRANSIENT"], timed=True, strat=dict(raw="real"),
                                    ref="retry.call", entry=entry), max_wall_s=wall, weight=2))
    for entry in ["policy.execute", "apolicy.call", "apolicy.execute", "policy.context", "apolicy.context"]:
        out.append(dict(name=f"breaker:{entry}", harness="rv.props.c12:h_pair",
                        params=dict(base, N=N, ref="policy.call", entry=entry, breaker=True), max_wall_s=wall, weight=2))
        # a rejected request: the same breaker interactions (one refused admission, nothing else) on every entry point
        out.append(dict(name=f"breaker-open:{entry}", harness="rv.props.c12:h_pair",
                        params=dict(base, N=1, ref="policy.execute" if entry != "policy.execute" else "policy.call", entry=entry,
                                    breaker="open"), max_wall_s=wall, weight=1))
    return out
