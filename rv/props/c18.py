"""C18 Built-in backoff strategies are total and stay inside their envelopes."""
import math

from rv import engine  # noqa: F401  (puts REDRESS_SRC on sys.path)

import redress.strategies as S
from redress import ErrorClass, Classification
from redress.strategies import (BackoffContext, adaptive, decorrelated_jitter, equal_jitter, retry_after_or,
                                token_backoff)

META = dict(
    level="model_checking",
    bounds=dict(
        quick="the real closures returned by decorrelated_jitter, equal_jitter, token_backoff, retry_after_or and adaptive, "
              "executed on solver values: base_s, max_s reals with 0 <= base_s <= max_s; prev_sleep None, a real >= 0, or the "
              "concrete 1e308 (prev*3.0 overflows to inf; the uniform stub then yields +inf or, for a draw of exactly 0, NaN); "
              "attempt an UNBOUNDED integer >= 1 (g**attempt cut by a contract stub: OverflowError iff attempt exceeds the "
              "interpreter's threshold, else a fresh value >= g); the random draw cut by the uniform(a,b) contract "
              "(a + m, m between 0 and b-a inclusive); retry_after_s in {None, NaN, +inf, -inf, any real}; fallback value in "
              "{NaN, +inf, -inf, any real}; remaining_s None or a real >= 0; jitter_s any real; adaptive: histories of <= 3 "
              "record_success/record_failure events with solver-real clock advances, window_s real > 0, target_success in "
              "{0.25, 0.5, 0.9, 1.0}, 1 <= min_multiplier <= max_multiplier reals, fallback value real >= 0",
        thorough="adaptive histories of <= 4 events; additional IEEE special-value jobs",
    ),
    assumptions=["floats are modelled as reals (NaN/+-inf injected explicitly where the statement quantifies over them); "
                 "IEEE-754 rounding (e.g. the one-ulp excess of equal_jitter when cap/2 is subnormal, repaired in 848be2f) "
                 "is outside this check's reach",
                 "uniform(a, b) returns a + m with m between 0 and b - a inclusive (CPython: a + (b-a)*random())",
                 "g**attempt for g in {2.0, 1.5}: raises OverflowError iff attempt > T_g (T_g measured on the running "
                 "interpreter by bisection: 1023 / 1750), otherwise some value >= g",
                 "on overflow the mathematical cap is read as IEEE does: max_s when base_s > 0, 0 when base_s == 0"],
    outside=["IEEE rounding and subnormals", "custom fallback strategies that raise"],
)
GOALS = ["dj_first_attempt", "dj_prev_large", "dj_prev_overflows", "ej_overflow_path", "ej_capped_by_max", "ej_zero_base", "tb_overflow_path",
         "rao_hint_used", "rao_hint_nan_falls_back", "rao_capped_by_remaining", "rao_negative_hint", "adaptive_all_aged_out",
         "adaptive_scaled_up", "adaptive_min_when_healthy"]
K = ErrorClass.TRANSIENT
NAN, INF = float("nan"), float("inf")


def pow_threshold(g):
    lo, hi = 1, 4096
    while lo < hi:
        mid = (lo + hi + 1) // 2
        try:
            g ** mid
            lo = mid
        except OverflowError:
            hi = mid - 1
    return lo


T = {2.0: pow_threshold(2.0), 1.5: pow_threshold(1.5)}


class Attempt:
    """Stands for an arbitrary integer n >= 1 in `g ** n` (the only way the strategies use it)."""

    def __init__(self, sym, n):
        self.sym, self.n = sym, n
        self.overflowed = False
        self.p = None

    def __rpow__(self, g):
        if self.n > T[g]:
            self.overflowed = True
            raise OverflowError(34, "Numerical result out of range")
        self.p = self.sym.real("pow", lo=g)
        return self.p


class FakeRandom:
    def __init__(self, sym):
        self.sym = sym
        self.calls = []

    def uniform(self, a, b):
        d = b - a
        j = len(self.calls)
        if isinstance(d, float) and (d != d or d in (INF, -INF)):
            # IEEE: a + (b-a)*random() with an infinite span is +-inf for a draw > 0 and NaN for a draw of exactly 0
            r = NAN if (d != d or self.sym.choice(f"u{j}_draw_is_zero", [False, True])) else d
            self.calls.append((a, b, r))
            return r
        if d >= 0:
            m = self.sym.real(f"u{j}", lo=0)
            self.sym.assume(m <= d)
        else:
            m = -self.sym.real(f"u{j}", lo=0)
            self.sym.assume(m >= d)
        self.calls.append((a, b, a + m))
        return a + m

    def random(self):
        r = self.sym.real(f"r{len(self.calls)}", lo=0)
        self.sym.assume(r < 1)
        return r


class patched_random:
    def __init__(self, sym):
        self.fake = FakeRandom(sym)

    def __enter__(self):
        self.old = S.random
        S.random = self.fake
        return self.fake

    def __exit__(self, *a):
        S.random = self.old


def base_max(sym):
    base = sym.real("base_s", lo=0)
    mx = base + sym.real("max_minus_base", lo=0)
    return base, mx


def finite_real(x):
    return isinstance(x, (int, float)) or hasattr(x, "var") or hasattr(x, "numerator")


def is_nan(x):
    return isinstance(x, float) and x != x


def h_jitter(sym, params):
    which = params["which"]
    base, mx = base_max(sym)
    n = sym.int("attempt", 1, None)
    att = Attempt(sym, n)
    prev = None
    if which == "decorrelated":
        pk = sym.choice("prev_kind", ["none", "real", "huge"])
        if pk == "real":
            prev = sym.real("prev", lo=0)
        elif pk == "huge":
            prev = 1e308  # finite, but prev * 3.0 overflows to +inf in binary64
    with patched_random(sym):
        f = {"decorrelated": decorrelated_jitter, "equal": equal_jitter, "token": token_backoff}[which](base, mx)
        try:
            v = f(att if which != "decorrelated" else n, K, prev)
        except Exception as e:  # noqa
            return (f"raises:{type(e).__name__}", f"{which}_jitter(base_s={base}, max_s={mx})(attempt={n}, prev={prev}) raised {e!r}")
    if is_nan(v) or v in (INF, -INF):
        return ("not_finite", f"{which}: returned {v}")
    if which == "decorrelated":
        if v < 0 or v > mx:
            return ("envelope", f"decorrelated_jitter returned {v}, outside [0, {mx}]")
        sym.cover("dj_first_attempt", prev is None)
        if prev is not None and prev != 1e308:
            sym.cover("dj_prev_large", prev * 3 > mx)
        sym.cover("dj_prev_overflows", prev == 1e308)
        return None
    g = 2.0 if which == "equal" else 1.5
    if att.overflowed:
        cap = mx if base > 0 else 0
        sym.cover("ej_overflow_path" if which == "equal" else "tb_overflow_path")
        if which == "equal":
            sym.cover("ej_zero_base", base == 0)
    else:
        scaled = base * att.p
        cap = mx if mx < scaled else scaled
        if which == "equal":
            sym.cover("ej_capped_by_max", mx < scaled)
    if v < cap / 2 or v > cap:
        return ("envelope", f"{which}: returned {v}, outside [cap/2, cap] with cap={cap} (base_s={base}, max_s={mx}, "
                            f"attempt={'> threshold' if att.overflowed else n})")
    return None


def special(sym, name, allow_none=True):
    opts = (["none"] if allow_none else []) + ["nan", "inf", "-inf", "real"]
    k = sym.choice(name + "_kind", opts)
    if k == "none":
        return None, k
    if k == "real":
        return sym.real(name), k
    return {"nan": NAN, "inf": INF, "-inf": -INF}[k], k


def h_retry_after_or(sym, params):
    ra, rak = special(sym, "retry_after")
    fb, fbk = special(sym, "fallback", allow_none=False)
    rem = sym.real("remaining", lo=0) if sym.bool("has_remaining") else None
    jit = sym.real("jitter_s")
    with patched_random(sym) as rnd:
        f = retry_after_or(lambda ctx: fb, jitter_s=jit)
        ctx = BackoffContext(attempt=1, classification=Classification(klass=K, retry_after_s=ra), prev_sleep_s=None,
                             remaining_s=rem, cause="exception")
        try:
            v = f(ctx)
        except Exception as e:  # noqa
            return (f"raises:{type(e).__name__}", f"retry_after_or raised {e!r} (retry_after_s={ra}, fallback={fb}, remaining={rem}, jitter_s={jit})")
    if is_nan(v) or v in (INF, -INF):
        return ("not_finite", f"retry_after_or returned {v} (retry_after_s={ra}, fallback={fb})")
    if v < 0:
        return ("negative", f"retry_after_or returned {v}")
    if rem is not None and v > rem:
        return ("exceeds_remaining", f"retry_after_or returned {v} with remaining_s={rem}")
    if rak == "real":
        # honoured exactly: at least the hint, at most hint + jitter, except where the remaining time is smaller
        h = ra if ra > 0 else 0
        j = jit if jit > 0 else 0
        lo, hi = h, h + j
        if rem is not None:
            lo = lo if lo < rem else rem
            hi = hi if hi < rem else rem
        if v < lo or v > hi:
            return ("hint_not_honoured", f"hint {ra}s, jitter_s {jit}, remaining {rem}: returned {v}, expected within [{lo}, {hi}]")
        sym.cover("rao_hint_used")
        sym.cover("rao_negative_hint", ra < 0)
        if rem is not None:
            sym.cover("rao_capped_by_remaining", rem < h)
    elif rak in ("nan", "inf", "-inf", "none"):
        sym.cover("rao_hint_nan_falls_back", rak == "nan")
        if rnd.calls:
            return ("jitter_without_hint", "jitter drawn although no finite hint was present")
    return None


def h_adaptive(sym, params):
    window = sym.real("window", lo=0)
    sym.assume(window > 0)
    target = sym.choice("target", [0.25, 0.5, 0.9, 1.0])
    mn = 1 + sym.real("min_minus_1", lo=0)
    mxm = mn + sym.real("max_minus_min", lo=0)
    fbv = sym.real("fallback_value", lo=0)
    now = [sym.real("t0", lo=0)]
    strat = adaptive(lambda ctx: fbv, window_s=window, target_success=target, min_multiplier=mn, max_multiplier=mxm,
                     clock=lambda: now[0])
    hist = []
    for j in range(params["K"]):
        ev = sym.choice(f"ev{j}", ["stop", "success", "failure"])
        if ev == "stop":
            break
        now[0] = now[0] + sym.real(f"adv{j}", lo=0)
        (strat.record_success if ev == "success" else strat.record_failure)()
        hist.append((now[0], ev))
    now[0] = now[0] + sym.real("adv_call", lo=0)
    ctx = BackoffContext(attempt=1, classification=Classification(klass=K), prev_sleep_s=None, remaining_s=None,
                         cause="exception")
    try:
        v = strat(ctx)
    except Exception as e:  # noqa
        return (f"raises:{type(e).__name__}", f"adaptive raised {e!r} after history {[h[1] for h in hist]}")
    if v < fbv * mn or v > fbv * mxm:
        return ("envelope", f"adaptive returned {v}; fallback {fbv} scaled by [{mn}, {mxm}] gives [{fbv * mn}, {fbv * mxm}]")
    live = [h for h in hist if now[0] - h[0] < window]
    if hist:
        sym.cover("adaptive_all_aged_out", len(live) == 0)
    fails = len([h for h in live if h[1] == "failure"])
    if live:
        if fails == 0 and v != fbv * mn:
            return ("healthy_not_min", f"no failures in the window but multiplier is not min_multiplier: {v} vs {fbv * mn}")
        sym.cover("adaptive_min_when_healthy", fails == 0)
        sym.cover("adaptive_scaled_up", v > fbv * mn)
    return None


def jobs(tier):
    q = tier == "quick"
    wall = 600 if q else 3000
    out = [dict(name=f"jitter:{w}", harness="rv.props.c18:h_jitter", params=dict(which=w), max_wall_s=wall, weight=2)
           for w in ("decorrelated", "equal", "token")]
    out.append(dict(name="retry_after_or", harness="rv.props.c18:h_retry_after_or", params={}, max_wall_s=wall, weight=3))
    out.append(dict(name="adaptive", harness="rv.props.c18:h_adaptive", params=dict(K=3 if q else 4), max_wall_s=wall, weight=4))
    return out
