"""C02 Deadline envelope: no attempt starts and no sleep extends past deadline_s."""
from fractions import Fraction

from rv.world import World

META = dict(
    level="model_checking",
    bounds=dict(
        quick="whole runs with every duration, sleeper overshoot, raw strategy value (any real, incl. negative and "
              "> remaining), start instant and deadline_s >= 0 a solver real: N=4 exception failures (Retry/AsyncRetry "
              "call+execute), N=3 with exception+result failures and max_attempts symbolic (incl. Policy/RetryPolicy "
              "sugar, the @retry decorator and the from_config constructors)",
        thorough="N=6 / N=4",
    ),
    assumptions=[
        "time advances only inside the operation and inside the sleeper (callbacks/hooks take no time)",
        "timedelta(seconds=x) modelled by the linear stub TD (exact when all instants lie on the 1 us grid); "
        "floats treated as reals (IEEE rounding of clock arithmetic outside the claim)",
        "attempt_timeout_s is None; one retryable class (TRANSIENT); no budget/abort/handler (C03 covers the product)",
    ],
    outside=["overruns below 1 us", "time passing inside hooks/handlers", "attempt_timeout_s"],
)
GOALS = ["sleep_capped_at_remaining", "stop_post_sleep_overshoot", "stop_failure_at_deadline", "retry_within_deadline",
         "negative_raw_clamped"]
CORE = ["retry.call", "retry.execute", "aretry.call", "aretry.execute"]
US = Fraction(1, 1000000)


def h_run(sym, params):
    w = World(sym, params)
    w.run(params["entry"])
    return check_envelope(w, w.trace, sym, eps=US if params.get("td") == "us" else 0)


def check_envelope(w, trace, sym, eps=0):
    D = w.deadline
    t0 = None
    total = 0
    nsleeps = 0
    fail_at_or_after_deadline = False
    last_sleep = None
    for ev in trace:
        k = ev[0]
        if k == "begin":
            t0 = ev[2]
        elif k == "op":
            i, t = ev[1], ev[2]
            if i > 1:
                if t - t0 > D + eps:
                    return ("attempt_after_deadline", f"attempt {i} started at elapsed {t - t0} > deadline {D}")
                if fail_at_or_after_deadline:
                    return ("retried_failure_at_deadline", f"attempt {i} follows a failure observed at/after the deadline")
                sym.cover("retry_within_deadline")
        elif k == "op_end":
            i, t = ev[1], ev[2]
            # (a success at/after the deadline is fine; only failures matter, and every scripted attempt <= N fails)
            if w.objs_kind_is_failure(i) and t - t0 >= D + eps:
                fail_at_or_after_deadline = True
                sym.cover("stop_failure_at_deadline")
        elif k == "strategy":
            sym.cover("negative_raw_clamped", ev[4] < 0)
        elif k == "sleep":
            s, t = ev[1], ev[2]
            nsleeps += 1
            if s < 0:
                return ("negative_sleep", f"sleeper called with {s}")
            rem = D - (t - t0)
            if s > rem + eps:
                return ("sleep_exceeds_remaining", f"sleep {s} requested with {rem} remaining before the deadline")
            sym.cover("sleep_capped_at_remaining", s == rem)
            total = total + s
            last_sleep = (s, t)
        elif k == "end":
            if last_sleep is not None and not fail_at_or_after_deadline:
                sym.cover("stop_post_sleep_overshoot", ev[1] - t0 > D)
    if total > D + eps * max(nsleeps, 1):
        return ("total_sleep_exceeds_deadline", f"sum of requested sleeps {total} > deadline {D}")
    if w.clock.wall_reads:
        return ("wall_clock_read", f"time.time() was read {w.clock.wall_reads} times during the run")
    return None


def jobs(tier):
    q = tier == "quick"
    out = []
    strat = dict(raw="real")
    # (a) long runs, exception failures only
    N = 4 if q else 6
    for entry in CORE:
        out.append(dict(name=f"long:{entry}", harness="rv.props.c02:h_run",
                        params=dict(entry=entry, N=N, kinds=["exc"], classes=["TRANSIENT"], max_attempts=N + 1,
                                    timed=True, strat=strat, hooks=False),
                        max_wall_s=600 if q else 3000, weight=3))
    # (b) both causes + success + symbolic max_attempts
    N = 3 if q else 4
    for entry in CORE + ["policy.call", "apolicy.execute", "rp.execute", "arp.call", "deco.call", "adeco.call", "rpcfg.execute",
                         "arpcfg.call", "retrycfg.call", "aretrycfg.execute"]:
        out.append(dict(name=f"mixed:{entry}", harness="rv.props.c02:h_run",
                        params=dict(entry=entry, N=N, kinds=["ok", "exc", "res"], classes=["TRANSIENT"],
                                    max_attempts="sym", timed=True, strat=strat, hooks=False),
                        max_wall_s=600 if q else 3000, weight=2))
    # (c) the microsecond-rounding timedelta model (td="us") is not part of the registered tiers: z3 answers
    #     `unknown` on some of its mixed ToInt/real path conditions (measured: 1 of 36 paths at N=2, 6 of 96 at
    #     N=3), and an unknown path is inconclusive, not a pass.  Instants are therefore assumed to lie on the
    #     1 us grid, where the linear TD model is exact; see META.assumptions.
    return out
