"""C08 Every admitted call settles the breaker; no half-open probe slot is leaked."""
import asyncio

from rv import env
from rv.world import World, EC, Fail, Res
from redress import (AbortRetryError, AsyncPolicy, CircuitBreaker, CircuitOpenError, Policy, RetryExhaustedError,
                     StopReason)

META = dict(
    level="fault_enumeration",
    level_text="Solver-driven fault enumeration on the real code: for each of the 8 entry points the way and the point at "
               "which the admitted call terminates are solver variables (outcome script, abort-poll answers, the await "
               "point at which CancelledError is thrown, which callback raises at which invocation); every feasible "
               "combination within the bound is enumerated to exhaustion and the property's own observation "
               "(advance by recovery_timeout_s, ask for admission) is asserted on each path.",
    bounds=dict(
        quick="8 entry points (Policy/AsyncPolicy x call/execute x with/without retry), breaker prepared open with the "
              "recovery timeout elapsed, or already half-open with a free slot (earlier probe cancelled), so the call under test "
              "holds the probe slot; with retry: N=2 scripted attempts over "
              "{value, TRANSIENT/PERMANENT exception, TRANSIENT result, AbortRetryError, KeyboardInterrupt, SystemExit, "
              "GeneratorExit, CancelledError, nested CircuitOpenError, nested RetryExhaustedError}, max_attempts 2, abort_if "
              "answers symbolic, one raising callback in {on_attempt_start, on_attempt_end, classifier, strategy, sleeper, "
              "abort_if} at invocation 1/2/always, async: CancelledError or GeneratorExit thrown at each suspension point",
        thorough="N=3, max_attempts 3",
    ),
    assumptions=["the breaker is used by one call at a time (the property says 'with no call outstanding')",
                 "raising callbacks raise ValueError; cancellation-type exceptions are thrown as fresh instances"],
    outside=["attempt_timeout_s", "sleep handler raising", "hooks of on_metric/on_log kind (C15: they cannot raise out)"],
)
GOALS = ["value", "exception", "result_exhaustion", "abort_poll", "abort_exc", "kbd", "sysexit", "genexit", "cancelled",
         "nested_circuit", "nested_exhausted", "cancel_at_await", "hook_start_raises", "hook_end_raises", "classifier_raises",
         "strategy_raises", "sleeper_raises", "genexit_at_await", "noretry"]
KINDS = ["ok", "exc", "res", "abort_exc", "kbd", "sysexit", "genexit", "cancelled", "nested_circuit", "nested_exhausted"]
RECOVERY = 5.0


def prepared_breaker(clock, mode="open_elapsed"):
    """open_elapsed: the call under test makes the OPEN->HALF_OPEN transition itself;
    half_free: the breaker is already half-open with a free probe slot (an earlier probe was cancelled), so the call
    under test is admitted without any transition event."""
    br = CircuitBreaker(failure_threshold=1, window_s=100.0, recovery_timeout_s=RECOVERY, clock=lambda: clock.now)
    br.record_failure(EC.TRANSIENT)
    clock.now = clock.now + RECOVERY + 1
    if mode == "half_free":
        assert br.allow().allowed
        br.record_cancel()
    return br


def settled(br, clock):
    """The property's observation: with no call outstanding, after recovery_timeout_s the next call is admitted."""
    clock.now = clock.now + RECOVERY
    return br.allow().allowed


def h_retry(sym, params):
    w = World(sym, params)
    site = sym.choice("fault_site", ["none", "attempt_start", "attempt_end", "classifier", "strategy", "sleeper", "abort_if"])
    if site != "none":
        w.fault = dict(site=site, exc=ValueError, at=sym.choice("fault_at", [None, 1, 2]))
    inj = {}
    inject = None
    if params["entry"].startswith("a"):
        K = sym.int("cancel_at", 0, params.get("maxk", 8))
        which = sym.choice("cancel_exc", [asyncio.CancelledError, GeneratorExit])

        def inject(k):
            if k == K:
                w.t(("inject", k, which.__name__))
                return which()
            return None
    if site == "abort_if":
        orig = w.abort_if

        def abort_if():
            r = orig()
            if w.fault["at"] in (None, w.polls):
                w.t(("hook_raises", "abort_if"))
                raise ValueError("abort_if")
            return r
        w.abort_if = abort_if
    prep = sym.choice("prepared", ["open_elapsed", "half_free"])
    br = prepared_breaker(w.clock, prep)
    w.run(params["entry"], breaker=br, inject=inject)
    ok = settled(br, w.clock)
    # classify how the call ended (finding key)
    how = "value"
    tr = w.trace
    fin = [e for e in tr if e[0] == "op_end"]
    if any(e[0] == "inject" for e in tr):
        e = next(e for e in tr if e[0] == "inject")
        how = "cancel_at_await" if e[2] == "CancelledError" else "genexit_at_await"
    elif any(e[0] == "sleeper_raises" for e in tr):
        how = "sleeper_raises"
    elif any(e[0] == "hook_raises" for e in tr):
        e = [e for e in tr if e[0] == "hook_raises"][0]
        how = {"attempt_start": "hook_start_raises", "attempt_end": "hook_end_raises"}.get(e[1], e[1] + "_raises")
    elif any(e[0] == "poll" and e[2] for e in tr):
        how = "abort_poll"
    elif fin:
        k = w.objs[fin[-1][1]][0]
        how = {"ok": "value", "exc": "exception", "res": "result_exhaustion"}.get(k, k)
    if not ok:
        return (f"leak:{params['entry']}:{how}",
                f"{params['entry']} ended by {how}: breaker still refuses admission after recovery_timeout_s "
                f"(state {br.state.value}, phantom probe in flight)")
    sym.cover(how)
    return None


def h_noretry(sym, params):
    is_async = params["async"]
    meth = params["meth"]
    kind = sym.choice("kind", KINDS[:2] + KINDS[3:])
    hook_fault = sym.choice("hook_fault", ["none", "start", "end"])
    pre_abort = sym.choice("abort_if", ["absent", "false", "true", "raises"])
    clock = env.Clock(0)
    made = {}

    def body():
        if kind == "ok":
            return Res(1, None)
        made["o"] = {"exc": lambda: Fail(1, EC.UNKNOWN), "abort_exc": AbortRetryError, "cancelled": asyncio.CancelledError,
                     "kbd": KeyboardInterrupt, "sysexit": SystemExit, "genexit": GeneratorExit,
                     "nested_exhausted": lambda: RetryExhaustedError(StopReason.MAX_ATTEMPTS_GLOBAL, 1, None, None, None),
                     "nested_circuit": lambda: CircuitOpenError("open")}[kind]()
        raise made["o"]

    async def abody():
        await env.Suspend()
        r = body()
        await env.Suspend()
        return r

    def on_start(ctx):
        if hook_fault == "start":
            raise ValueError("start")

    def on_end(ctx):
        if hook_fault == "end":
            raise ValueError("end")

    def abort_if():
        if pre_abort == "raises":
            raise ValueError("abort_if")
        return pre_abort == "true"
    inject = None
    how = [kind]
    if is_async:
        K = sym.int("cancel_at", 0, 3)
        which = sym.choice("cancel_exc", [asyncio.CancelledError, GeneratorExit])

        def inject(k):
            if k == K:
                how[0] = "cancel_at_await" if which is asyncio.CancelledError else "genexit_at_await"
                return which()
            return None
    kw = dict(on_attempt_start=on_start, on_attempt_end=on_end)
    if pre_abort != "absent":
        kw["abort_if"] = abort_if
    prep = sym.choice("prepared", ["open_elapsed", "half_free"])
    with env.patched(clock):
        br = prepared_breaker(clock, prep)
        pol = (AsyncPolicy if is_async else Policy)(circuit_breaker=br)
        try:
            if is_async:
                env.drive(getattr(pol, meth)(abody, **kw), inject=inject)
            else:
                getattr(pol, meth)(body, **kw)
        except BaseException as e:
            if type(e).__module__.startswith("crosshair"):
                raise
        ok = settled(br, clock)
    entry = ("apolicy" if is_async else "policy") + "." + meth + ":noretry"
    if not ok:
        return (f"leak:{entry}:{how[0]}:hook={hook_fault}:abort_if={pre_abort}",
                f"{entry} kind={how[0]} hook_fault={hook_fault} abort_if={pre_abort}: breaker refuses admission after "
                f"recovery_timeout_s (state {br.state.value})")
    sym.cover("noretry")
    return None


def jobs(tier):
    q = tier == "quick"
    N = 2 if q else 3
    out = []
    wall = 600 if q else 3000
    for entry in ["policy.call", "policy.execute", "apolicy.call", "apolicy.execute"]:
        for o1 in range(len(KINDS)):
            out.append(dict(name=f"retry:{entry}:o1={KINDS[o1]}", harness="rv.props.c08:h_retry",
                            params=dict(entry=entry, N=N, kinds=KINDS, classes=["TRANSIENT", "PERMANENT"], max_attempts=N,
                                        abort=True, hooks=False, attempt_hooks=True, pin={"o1": o1}, maxk=3 * N + 1),
                            max_wall_s=wall, weight=3 if o1 in (1, 2) else 1))
    for a in (False, True):
        for meth in ("call", "execute"):
            out.append(dict(name=f"noretry:{'a' if a else ''}policy.{meth}", harness="rv.props.c08:h_noretry",
                            params={"async": a, "meth": meth}, max_wall_s=wall, weight=2))
    return out
