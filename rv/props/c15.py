"""C15 Observability hooks can never alter control flow."""
from rv.engine import CachingSym
from rv.world import World, SpyBreaker, HookError, EC
from redress import AbortRetryError, RetryExhaustedError, CircuitOpenError, StopReason, CircuitBreaker

META = dict(
    level="model_checking",
    bounds=dict(
        quick="differential inside one path: the same symbolic world (N=3 attempts over success, TRANSIENT/PERMANENT "
              "exception/result; handler decisions; budget) is run with silent hooks and again with a fault plan: hook in "
              "{on_metric, on_log, before_sleep (sync), before_sleep (awaitable, async only)}, raising at a solver-chosen "
              "invocation index (1..2; thorough 1..4) or always, exception type in {custom Exception subclass, "
              "AbortRetryError, RetryExhaustedError} (thorough adds ValueError, CircuitOpenError, TimeoutError); budget of "
              "one token (thorough: symbolic); Retry/AsyncRetry call+execute "
              "(execute with capture_timeline) and Policy/AsyncPolicy with a half-open-eligible real breaker behind a spy",
        thorough="N=4",
    ),
    assumptions=["hooks raise exceptions deriving from Exception (BaseException subclasses are outside the statement)",
                 "the faulty hook records the event before it raises, so complete traces must be equal"],
    outside=["attempt hooks (on_attempt_start/end), which are allowed to propagate", "contrib.otel / metrics.py adapters"],
)
GOALS = ["fault_fired", "fault_on_metric", "fault_on_log", "fault_before_sleep", "fault_always", "breaker_event_with_fault",
         "timeline_compared"]
EXC = {"ValueError": ValueError, "HookError": HookError, "AbortRetryError": AbortRetryError,
       "RetryExhaustedError": lambda: RetryExhaustedError(StopReason.ABORTED, 1, None, None, None),
       "CircuitOpenError": CircuitOpenError, "TimeoutError": TimeoutError}


def norm(ev):
    k = ev[0]
    if k == "strategy":
        c = ev[3]
        return (k, ev[1], ev[2], c.get("attempt"), c.get("prev"), c.get("remaining"), c.get("cause"), ev[4])
    if k == "handler":
        return (k, ev[1], ev[2], ev[3], ev[5])
    if k == "before_sleep":
        return (k, ev[1], ev[2], ev[3])
    if k == "br.failure":
        return (k, ev[1])
    return ev


def norm_result(res):
    kind, o = res
    if kind == "outcome":
        tl = None if o.timeline is None else [(t.attempt, t.event, t.sleep_s, t.error_class, t.stop_reason, t.cause)
                                              for t in o.timeline.events]
        return (kind, o.ok, type(o.value).__name__, getattr(o.value, "i", None), o.stop_reason, o.attempts, o.last_class,
                type(o.last_exception).__name__, type(o.last_result).__name__, o.cause, o.next_sleep_s, tl)
    if kind == "raise":
        return (kind, type(o).__name__, getattr(o, "i", None), getattr(o, "stop_reason", None), getattr(o, "attempts", None))
    return (kind, type(o).__name__, getattr(o, "i", None))


def run_once(csym, params, fault):
    w = World(csym, params)
    w.fault = fault
    breaker = None
    if params.get("breaker"):
        inner = CircuitBreaker(failure_threshold=1, window_s=100.0, recovery_timeout_s=5.0, clock=lambda: w.clock.now)
        inner.record_failure(EC.TRANSIENT)
        w.clock.now = 6.0
        breaker = SpyBreaker(w, inner)
    w.run(params["entry"], breaker=breaker, capture_timeline=params["entry"].endswith("execute"))
    return w


def h_diff(sym, params):
    csym = CachingSym(sym)
    site = params["site"]
    at = sym.choice("fault_at", params.get("ats", [None, 1, 2, 3, 4]))
    exc = EXC[sym.choice("fault_exc", params.get("excs", list(EXC)))]
    w1 = run_once(csym, params, None)
    fault = dict(site=site, at=at, exc=exc)
    w2 = run_once(csym, params, fault)
    t1 = [norm(e) for e in w1.trace]
    t2 = [norm(e) for e in w2.trace]
    if t1 != t2:
        j = next((i for i, (a, b) in enumerate(zip(t1, t2)) if a != b), min(len(t1), len(t2)))
        return ("trace_differs", f"{site} raising {exc if isinstance(exc, type) else 'RetryExhaustedError'} at={at}: "
                                 f"traces diverge at event {j}: silent={t1[j:j + 2]} faulty={t2[j:j + 2]}")
    r1, r2 = norm_result(w1.result), norm_result(w2.result)
    if r1 != r2:
        return ("result_differs", f"{site} raising at={at}: silent run -> {r1}, faulty run -> {r2}")
    fired = fault.get("count", 0) >= (at or 1)
    sym.cover("fault_fired", fired)
    if fired:
        sym.cover({"on_metric": "fault_on_metric", "on_log": "fault_on_log"}.get(site, "fault_before_sleep"))
        sym.cover("fault_always", at is None)
        sym.cover("breaker_event_with_fault", bool(params.get("breaker")))
        sym.cover("timeline_compared", r1[0] == "outcome" and r1[-1] is not None and len(r1[-1]) >= 2)
    return None


def jobs(tier):
    q = tier == "quick"
    N = 3 if q else 4
    out = []
    wall = 600 if q else 3000
    base = dict(N=N, kinds=["ok", "exc", "res"], classes=["TRANSIENT", "PERMANENT"], handler=True,
                budget=1 if q else "sym", before_sleep=True)
    if q:
        base.update(ats=[None, 1, 2], excs=["HookError", "AbortRetryError", "RetryExhaustedError"])
    for entry in ["retry.call", "retry.execute", "aretry.call", "aretry.execute"]:
        for site in ["on_metric", "on_log", "before_sleep"]:
            out.append(dict(name=f"diff:{entry}:{site}", harness="rv.props.c15:h_diff",
                            params=dict(base, entry=entry, site=site), max_wall_s=wall, weight=3))
    for entry in ["aretry.call", "aretry.execute"]:
        out.append(dict(name=f"diff:{entry}:abefore_sleep", harness="rv.props.c15:h_diff",
                        params=dict(base, entry=entry, site="before_sleep", async_before_sleep=True),
                        max_wall_s=wall, weight=3))
    for entry in ["policy.call", "policy.execute", "apolicy.call", "apolicy.execute"]:
        for site in ["on_metric", "on_log"]:
            out.append(dict(name=f"breaker:{entry}:{site}", harness="rv.props.c15:h_diff",
                            params=dict(base, entry=entry, site=site, breaker=True, N=2), max_wall_s=wall, weight=2))
    return out
