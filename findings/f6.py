import sys, time
sys.path.insert(0, sys.argv[1] if len(sys.argv)>1 else '/repo/src')
from redress import Retry, ErrorClass
class Recorder(list):
    """a recording sleeper: falsy while empty, but callable"""
    def __call__(self, s): self.append(s)
rec = Recorder()
n=[0]
def op():
    n[0]+=1
    if n[0]<3: raise ValueError('x')
    return 'ok'
t=time.time()
r=Retry(classifier=lambda e: ErrorClass.TRANSIENT, strategy=lambda ctx: 0.2, max_attempts=3)
r.call(op, sleeper=rec)
dt=time.time()-t
print('sleeper received', list(rec), 'real time slept %.2fs' % dt)
sys.exit(0 if list(rec)==[0.2,0.2] and dt<0.1 else 1)
