import sys, asyncio
sys.path.insert(0, sys.argv[1] if len(sys.argv)>1 else '/repo/src')
from redress import Policy, Retry, AsyncPolicy, AsyncRetry, ErrorClass, CircuitBreaker, CircuitOpenError
leaks=[]
def mk():
    now=[0.0]
    br=CircuitBreaker(failure_threshold=1, window_s=10.0, recovery_timeout_s=5.0, clock=lambda: now[0])
    br.record_failure(ErrorClass.TRANSIENT); now[0]=6.0
    return br, now
def after(br, now, key):
    now[0]+=5.0
    if not br.allow().allowed: leaks.append(key)
def boom_clf(e): raise ValueError('clf')
for entry in ('call','execute'):
  for with_retry in (True, False):
    for kind,exc in (('cancelled',asyncio.CancelledError),('genexit',GeneratorExit),('kbd',KeyboardInterrupt),('nested_circuit',CircuitOpenError),('classifier_raises',None),('on_end_raises',None)):
        br,now=mk()
        clf = boom_clf if kind=='classifier_raises' else (lambda e: ErrorClass.PERMANENT)
        retry=Retry(classifier=clf, strategy=lambda c:0.0, max_attempts=2) if with_retry else None
        pol=Policy(retry=retry, circuit_breaker=br)
        def op():
            raise (exc or RuntimeError)()
        def on_end(ctx):
            if kind=='on_end_raises': raise ValueError('hook')
        try: getattr(pol,entry)(op, on_attempt_end=on_end)
        except BaseException: pass
        after(br,now,(f'sync.{entry}', 'retry' if with_retry else 'noretry', kind))
# async execute cancelled at first await
async def aop():
    await asyncio.sleep(10)
for entry in ('call','execute'):
    br,now=mk()
    pol=AsyncPolicy(retry=AsyncRetry(classifier=lambda e: ErrorClass.PERMANENT, strategy=lambda c:0.0), circuit_breaker=br)
    async def main():
        t=asyncio.ensure_future(getattr(pol,entry)(aop)); await asyncio.sleep(0); t.cancel()
        try: await t
        except asyncio.CancelledError: pass
    asyncio.run(main())
    after(br,now,(f'async.{entry}','retry','task_cancelled'))
for l in leaks: print('LEAK',l)
print(len(leaks),'leaks')
sys.exit(1 if leaks else 0)
