import sys
sys.path.insert(0, sys.argv[1] if len(sys.argv)>1 else '/repo/src')
import random
from redress.strategies import equal_jitter, token_backoff
from redress import ErrorClass
bad=[]
for name,f,a in (('equal_jitter',equal_jitter(0.25,30.0),1024),('token_backoff',token_backoff(0.25,20.0),1751)):
    try:
        v=f(a,ErrorClass.TRANSIENT,None); assert 0<=v<=30
    except OverflowError as e: bad.append((name,a,repr(e)))
m=4.4501477170144023e-308
random._inst.random=lambda: 1-2**-53
v=equal_jitter(m,m)(1,ErrorClass.TRANSIENT,None)
if v>m: bad.append(('equal_jitter 1ulp',v,m))
print(bad); sys.exit(1 if bad else 0)
