import sys
sys.path.insert(0, sys.argv[1] if len(sys.argv)>1 else '/repo/src')
from redress import Policy, AbortRetryError
n=[0]
def op():
    n[0]+=1; raise AbortRetryError()
out=Policy().execute(op)
print(out.stop_reason, 'attempts', out.attempts, 'invocations', n[0])
sys.exit(0 if out.attempts==n[0] else 1)
