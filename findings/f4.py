import sys
sys.path.insert(0, sys.argv[1] if len(sys.argv)>1 else '/repo/src')
from redress.extras.http import http_retry_after_classifier
bad=[]
class E(Exception):
    status=429
def t(**kw):
    e=E()
    for k,v in kw.items(): setattr(e,k,v)
    try:
        r=http_retry_after_classifier(e); return r
    except Exception as x: bad.append((kw if len(str(kw))<80 else str(kw)[:80], repr(x)))
t(headers={'Retry-After':'2'*309}); t(retry_after=10**400); t(headers={'Retry-After':"Mon, 01 Jan 99999999999999999999 00:00:00 GMT"}); t(retry_after='9'*400)
print(t(headers={'Retry-After':'1'*309}))
print(bad); sys.exit(1 if bad else 0)
