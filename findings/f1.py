import sys
sys.path.insert(0, sys.argv[1] if len(sys.argv)>1 else '/repo/src')
from redress import Retry, ErrorClass, Budget
ev=[]; sl=[]; strat=[]
b=Budget(max_retries=5, window_s=60)
r=Retry(classifier=lambda e: ErrorClass.TRANSIENT, strategy=lambda ctx:(strat.append(ctx.attempt),0.5)[1], max_attempts=2, deadline_s=100, budget=b)
def op(): raise ValueError('x')
try: r.call(op, on_metric=lambda e,a,s,t: ev.append((e,a,s)), sleeper=sl.append)
except ValueError: pass
print('events',ev); print('sleeps',sl,'strategy calls',strat,'budget remaining',b.remaining())
assert sl==[0.5] and strat==[1] and b.remaining()==4, 'F1: backoff work after the last permitted attempt'
