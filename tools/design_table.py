#!/usr/bin/env python3
"""Rewrites the paths/queries/wall columns of the per-property table in DESIGN.md from evidence/*.json (quick tier)."""
import json, os, re
ROOT = os.path.dirname(os.path.dirname(os.path.abspath(__file__)))
p = os.path.join(ROOT, "DESIGN.md")
s = open(p).read()
for i in range(1, 21):
    pid = f"C{i:02d}"
    ev = json.load(open(os.path.join(ROOT, "evidence", pid + ".json")))
    c = ev["coverage"]
    def fmt(n):
        return f"{n:,}".replace(",", " ")
    pat = re.compile(r"^(\| %s \|[^|]*\|[^|]*\|)[^|]*\|[^|]*\|[^|]*\|$" % pid, re.M)
    s, n = pat.subn(lambda m: f"{m.group(1)} {fmt(c['paths'])} | {fmt(c['solver_queries'])} | {round(ev['wall_s'])} s |", s)
    if n != 1:
        print("row not found for", pid)
open(p, "w").write(s)
print("table refreshed; tiers:", {json.load(open(os.path.join(ROOT, 'evidence', f)))['tier'] for f in os.listdir(os.path.join(ROOT, 'evidence'))})
