#!/bin/sh
# usage: validate_seed.sh <dir with mutant_X.diff/demo_X.py> <X> <label>  -> prints one result line
# Confirms: patch applies to a clean worktree of /repo HEAD, test suite passes there, demo fails with it, passes without.
D=$1; X=$2; L=$3
WT=/tmp/wtv/$L
rm -rf $WT; git -C /repo worktree prune; git -C /repo worktree add -q --detach $WT HEAD || { echo "$L worktree-failed"; exit 1; }
cd $WT
if ! git apply $D/mutant_$X.diff 2>/dev/null; then echo "$L APPLY-FAILED"; git -C /repo worktree remove --force $WT; exit 0; fi
T=$(PYTHONPATH=$WT/src /venv/bin/python -m pytest -q -p no:cacheprovider -x 2>&1 | grep -E "passed|failed" | tail -1)
/venv/bin/python $D/demo_$X.py $WT/src >/dev/null 2>&1; M=$?
/venv/bin/python $D/demo_$X.py /repo/src >/dev/null 2>&1; O=$?
echo "$L tests=[$T] demo_mutant_exit=$M demo_orig_exit=$O"
cd /; git -C /repo worktree remove --force $WT
