#!/bin/sh
# usage: tools/mutant_matrix.sh <out-file> <seed-ids...>   (each seed is run against the property named in its id)
OUT=$1; shift
cd "$(dirname "$0")/.."
for s in "$@"; do
  p=$(echo $s | sed -E 's/^(F[0-9]-)?(C[0-9][0-9]).*/\2/')
  tools/mutant.sh $s $p >> $OUT 2>&1
done
