#!/usr/bin/env python3
"""Regenerates MANIFEST.json from the rv.props.* modules that exist (run from /verif)."""
import importlib
import json
import os
import sys

ROOT = os.path.dirname(os.path.dirname(os.path.abspath(__file__)))
sys.path.insert(0, ROOT)
os.environ.setdefault("REDRESS_SRC", "/repo/src")

NA_REASONS = {}

checks = []
na = []
ids = [json.loads(l)["id"] for l in open(os.path.join(ROOT, "properties.jsonl"))]
for pid in ids:
    path = os.path.join(ROOT, "rv", "props", pid.lower() + ".py")
    if not os.path.exists(path):
        na.append({"property_id": pid, "reason": NA_REASONS.get(pid, "check not built yet (work in progress); see DESIGN.md section 5 for the planned harness")})
        continue
    import ast
    tree = ast.parse(open(path).read())
    node = next(n for n in tree.body if isinstance(n, ast.Assign) and getattr(n.targets[0], "id", None) == "META")
    ns = {"META": eval(compile(ast.Expression(node.value), path, "eval"), {"dict": dict})}
    meta = ns["META"]
    b = meta.get("bounds", {})
    checks.append({
        "property_id": pid,
        "quick_cmd": f"bin/check {pid} --tier quick",
        "thorough_cmd": f"bin/check {pid} --tier thorough",
        "evidence_file": f"/verif/evidence/{pid}.json",
        "replay_cmd_template": f"bin/check {pid} --replay {{path}}",
        "engine": "rv-chx",
        "level_claimed": {
            "category": meta.get("level", "model_checking"),
            "text": meta.get("level_text", "Bounded symbolic model checking of the real code: the harness runs redress's own "
                    "functions on solver variables (CrossHair core + z3); every feasible path within the bound is "
                    "enumerated until the path tree is exhausted, the property is asserted on each path, and any "
                    "counterexample is replayed on the real code under plain CPython before it is reported. "
                    "Bounds (quick): " + str(b.get("quick", b))),
            "design_ref": meta.get("design_ref", f"DESIGN.md section 5 ({pid})"),
        },
        "level_note": "; ".join(meta.get("assumptions", [])) + " | outside the claim: " + "; ".join(meta.get("outside", [])),
        "technique": meta.get("technique", "solver-based bounded symbolic execution of the real Python code (CrossHair core + z3), exhaustive path enumeration, concrete replay"),
    })

manifest = {
    "version": 1,
    "setup_cmd": "./setup.sh",
    "hooks": {
        "guard": "REDRESS_VERIF",
        "enable": "no hooks are needed: the checks import /repo/src (or $REDRESS_SRC) unmodified and replace time/timedelta/asyncio.sleep in the loaded redress modules from the outside (rv/env.py)",
        "baseline_off_cmd": "cd /repo && /venv/bin/python -m pytest -ra -q -p no:cacheprovider --timeout=900 --continue-on-collection-errors",
        "source_commits": [],
        "add_only": True,
    },
    "engines": [
        {"name": "rv-chx", "path": "rv/engine.py", "serves_properties": [c["property_id"] for c in checks],
         "kind_free_text": "own exhaustive exploration loop over CrossHair 0.0.110's byte-code symbolic executor with z3; "
                           "concrete replay of every counterexample; parallel jobs (rv/run.py)"},
        {"name": "rv-threads", "path": "rv/threads.py", "serves_properties": ["C17"],
         "kind_free_text": "AST transformation of CircuitBreaker/Budget (from the current source) into line-preemptible generators; "
                           "scheduler choices are solver variables; pre-emption-bounded exhaustive interleaving exploration "
                           "with a linearizability oracle, on top of rv-chx"},
        {"name": "rv-world", "path": "rv/world.py", "serves_properties": ["C01", "C02", "C03", "C04", "C05", "C08", "C09", "C11",
                                                                            "C12", "C13", "C14", "C15", "C16"],
         "kind_free_text": "symbolic world (configuration, outcome script, timings, callback answers, fault plans, placements) and "
                           "trace recorder shared by the whole-run harnesses; coroutine trampoline for async entry points"},
    ],
    "checks": checks,
    "not_applicable": na,
    "notes": "All checks: exit 0 = all path trees exhausted and no violation; exit 1 + VIOLATION line = replayed counterexample "
             "not listed in known_findings.json; exit 2 = inconclusive (never counted as success). Genuine defects found on the "
             "pinned tree were repaired by fix: commits in /repo (see known_findings.json 'fixed' entries and DESIGN.md section 8).",
}
json.dump(manifest, open(os.path.join(ROOT, "MANIFEST.json"), "w"), indent=1)
print(f"MANIFEST.json: {len(checks)} checks, {len(na)} not_applicable")
