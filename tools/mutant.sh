#!/bin/sh
# usage: tools/mutant.sh <seed-id> <PROPERTY-ID> [bin/check args...]
# Runs one check against a scratch copy of /repo's working tree with seeded/<seed-id>/patch.diff applied
# (REDRESS_SRC points the engine at the copy; /repo itself is not touched; no evidence is written).
S=$1; P=$2; shift 2
HERE="$(cd "$(dirname "$0")/.." && pwd)"
W=/tmp/mut/$S-$P-$$
rm -rf $W; mkdir -p $W
cp -r /repo/src $W/src
(cd $W && patch -s -p1 < $HERE/seeded/$S/patch.diff) || { echo "MUTANT $S: patch failed"; rm -rf $W; exit 3; }
REDRESS_SRC=$W/src $HERE/bin/check $P --no-evidence "$@" > $W/out.txt 2>&1
RC=$?
echo "MUTANT $S check=$P exit=$RC $(grep -c '^VIOLATION' $W/out.txt) violation line(s): $(grep -m3 'violation key' $W/out.txt | tr '\n' ';' | cut -c1-300)"
[ -n "$KEEP_OUT" ] && cp $W/out.txt $KEEP_OUT
rm -rf $W
exit $RC
