#!/bin/sh
# usage: tools/run_all.sh [quick|thorough] [ids...]  -> runs the registered checks one after the other, prints a summary
TIER=${1:-quick}; shift
IDS=${*:-C01 C02 C03 C04 C05 C06 C07 C08 C09 C10 C11 C12 C13 C14 C15 C16 C17 C18 C19 C20}
cd "$(dirname "$0")/.."
mkdir -p /tmp/runall
for id in $IDS; do
  s=$(date +%s)
  bin/check $id --tier $TIER > /tmp/runall/$id.$TIER.log 2>&1; rc=$?
  e=$(date +%s)
  echo "$id tier=$TIER exit=$rc wall=$((e-s))s $(grep -c '^VIOLATION' /tmp/runall/$id.$TIER.log) violations; $(grep -c '^KNOWN-FINDING' /tmp/runall/$id.$TIER.log) known; $(tail -1 /tmp/runall/$id.$TIER.log | cut -c1-100)"
done
