#!/bin/sh
# Build the overlay venv used by every check: /venv's interpreter + site-packages (redress deps),
# plus crosshair-tool and z3-solver from the offline wheelhouse. Idempotent; no network.
set -e
cd "$(dirname "$0")"
V=.venv
if [ -x "$V/bin/python" ] && "$V/bin/python" -c "import crosshair, z3" 2>/dev/null; then
  exit 0
fi
rm -rf "$V"
/venv/bin/python -m venv "$V"
SP=$("$V/bin/python" -c "import sysconfig; print(sysconfig.get_paths()['purelib'])")
echo "/venv/lib/python3.12/site-packages" > "$SP/_verif_overlay.pth"
PIP_NO_INDEX=1 "$V/bin/python" -m pip install -q --no-index --find-links /opt/veriftools/wheels crosshair-tool z3-solver
"$V/bin/python" -c "import crosshair, z3; print('overlay venv ok: crosshair', crosshair.__version__ if hasattr(crosshair,'__version__') else '', 'z3', z3.get_version_string())"
